"""The variant matrix: firing and silent variants per property.

Each variant is an AST-addressed edit of the *current* tree (mutate.py).  `rule` is the prefix of the
rule id that must report a firing variant, `where` a substring of the construct it must name.
"""
from __future__ import annotations

import ast
from dataclasses import dataclass
from typing import Callable, Dict, List

from . import mutate as M

S_PRS = 'base/reservable_priority_req_store.py'
S_RS = 'base/reservable_req_store.py'
S_FS = 'base/reservable_priority_req_filter_store.py'
S_BUF = 'base/buffer_store.py'
S_FLT = 'base/fleet_store.py'
S_BELT = 'base/belt_store.py'
S_SLOT = 'base/slotted_belt_store.py'
E_BUF = 'edges/buffer.py'
E_FLT = 'edges/fleet.py'
E_CC = 'edges/continuous_conveyor.py'
E_SC = 'edges/slotted_conveyor.py'
N_SRC = 'nodes/source.py'
N_SNK = 'nodes/sink.py'
N_MAC = 'nodes/machine.py'
N_SPL = 'nodes/splitter.py'
N_CMB = 'nodes/combiner.py'


@dataclass
class Variant:
    prop: str
    name: str
    kind: str                 # 'fire' | 'silent'
    build: Callable
    rule: str = ''
    where: str = ''
    accept_analysis_error: bool = False


VARIANTS: List[Variant] = []


def fire(prop, name, rule, where, build, accept_analysis_error=False):
    VARIANTS.append(Variant(prop, name, 'fire', build, rule, where, accept_analysis_error))


def silent(prop, name, build):
    VARIANTS.append(Variant(prop, name, 'silent', build))


def for_prop(prop) -> List[Variant]:
    return [v for v in VARIANTS if v.prop == prop]


def sub(old, new):
    return lambda s: s.replace(old, new)


# ============================================================================================ C01
fire('C01', 'buffer-grant-le', 'C01.O1', 'BufferStore._do_reserve_put',
     lambda p: M.replace_node(p, S_BUF, 'BufferStore._do_reserve_put', M.compare_containing('self.capacity'), sub('<', '<=')))
fire('C01', 'fleet-grant-missing-ready', 'C01.O1', 'FleetStore._do_reserve_put',
     lambda p: M.replace_node(p, S_FLT, 'FleetStore._do_reserve_put', M.compare_containing('self.capacity'),
                              sub('+len(self.ready_items)', '').__call__ if False else (lambda s: s.replace('+len(self.ready_items)', '').replace('+ len(self.ready_items)', ''))))
fire('C01', 'belt-empty-grant-unguarded', 'C01.O1', 'BeltStore._do_reserve_put',
     lambda p: M.replace_node(p, S_BELT, 'BeltStore._do_reserve_put', M.compare_containing('self.capacity'), 'True', which=2))
fire('C01', 'prs-grant-other-list', 'C01.O1', 'ReservablePriorityReqStore._do_reserve_put',
     lambda p: M.replace_node(p, S_PRS, 'ReservablePriorityReqStore._do_reserve_put', M.compare_containing('self.capacity'),
                              sub('len(self.reservations_put)', 'len(self.reservations_get)')))
fire('C01', 'rs-second-test-stricter', 'C01.O4', 'ReservableReqStore',
     lambda p: M.replace_node(p, S_RS, 'ReservableReqStore._do_put', M.compare_containing('self.capacity'), sub('self.capacity', 'self.capacity - 1')))
fire('C01', 'buffer-move-guard-stricter', 'C01.O4', 'BufferStore.move_to_ready_items',
     lambda p: M.replace_node(p, S_BUF, 'BufferStore.move_to_ready_items', M.compare_containing('self.capacity'), sub('self.capacity', 'self.capacity - 1')))
fire('C01', 'buffer-put-keeps-reservation', 'C01.O2', 'BufferStore._do_put',
     lambda p: M.delete_stmt(p, S_BUF, 'BufferStore._do_put', M.stmt_calling('self.reservations_put.remove')))
fire('C01', 'fleet-move-duplicates', 'C01.O', 'FleetStore.move_to_ready_items',
     lambda p: M.replace_node(p, S_FLT, 'FleetStore.move_to_ready_items', M.assign_to('item_to_put'), 'item_to_put = self.items[item_index]'))
fire('C01', 'edge-capacity-plus-one', 'C01.O6', 'Buffer.__init__',
     lambda p: M.replace_node(p, E_BUF, 'Buffer.__init__', M.is_call('BufferStore'), sub('capacity=self.capacity', 'capacity=self.capacity + 1')))
fire('C01', 'edge-capacity-unvalidated', 'C01.O6', 'capacity-validation',
     lambda p: M.replace_node(p, 'edges/edge.py', 'Edge.__init__', M.if_testing('self.capacity <= 0'), sub('or self.capacity <= 0', '')))
fire('C01', 'edge-writes-store-list', 'C01.O5', 'Buffer.put',
     lambda p: M.insert_after(p, E_BUF, 'Buffer.put', M.assign_to('proceed'), 'self.inbuiltstore.items.append((item, delay))'))
fire('C01', 'node-pops-store-list', 'C01.O5', 'Sink.behaviour',
     lambda p: M.insert_before(p, N_SNK, 'Sink.behaviour', M.assign_to('item'), 'self.in_edges[0].inbuiltstore.ready_items.pop(0)'))
fire('C01', 'fleet-cancel-not-delegated', 'C01.O7', 'Fleet.reserve_put_cancel',
     lambda p: M.replace_node(p, E_FLT, 'Fleet.reserve_put_cancel', lambda n: isinstance(n, ast.Return), 'return True'))
fire('C01', 'buffer-put-twice', 'C01.O7', 'Buffer.put',
     lambda p: M.insert_after(p, E_BUF, 'Buffer.put', M.assign_to('proceed'), 'proceed = self.inbuiltstore.put(event, (item, delay))'))
fire('C01', 'fleet-activate-unguarded', 'C01.O8', 'FleetStore._do_put',
     lambda p: M.replace_node(p, S_FLT, 'FleetStore._do_put', M.if_testing('self.activate_fleet.triggered'), sub('not self.activate_fleet.triggered', 'True')))
fire('C01', 'belt-ready-event-unguarded', 'C01.O8', 'move_to_ready_items',
     lambda p: M.replace_node(p, S_BELT, 'BeltStore.move_to_ready_items', M.if_testing('self.ready_item_event.triggered'),
                              sub('not self.ready_item_event.triggered', 'True')))
silent('C01', 'buffer-grant-rearranged',
       lambda p: M.replace_node(p, S_BUF, 'BufferStore._do_reserve_put', M.compare_containing('self.capacity'),
                                'self.capacity - len(self.items) - len(self.ready_items) > len(self.reservations_put)'))
silent('C01', 'prs-grant-nested-if',
       lambda p: M.replace_node(p, S_PRS, 'ReservablePriorityReqStore._do_reserve_put', M.if_testing('self.capacity'),
                                'if len(self.reservations_put) + len(self.items) >= self.capacity:\n    return\nself.reservations_put.append(event)\nevent.succeed()'))
silent('C01', 'rs-second-test-dropped',
       lambda p: M.replace_node(p, S_RS, 'ReservableReqStore._do_put', M.compare_containing('self.capacity'), 'True'))
silent('C01', 'fleet-extra-logging',
       lambda p: M.insert_before(p, S_FLT, 'FleetStore._do_put', M.stmt_calling('self.items.append'), 'print("putting", item, len(self.items))'))
silent('C01', 'buffer-local-renamed',
       lambda p: M.replace_node(p, S_BUF, 'BufferStore.move_to_ready_items', lambda n: isinstance(n, ast.If) and 'self.items' == ast.unparse(n.test),
                                lambda s: s.replace('item_to_put', 'moved').replace('item_index', 'pos')))

# ============================================================================================ C04
fire('C04', 'buffer-get-no-trigger', 'C04.R1', 'BufferStore',
     lambda p: M.delete_stmt(p, S_BUF, 'BufferStore.get', M.stmt_calling('self._trigger_reserve_put')))
fire('C04', 'fleet-ready-no-trigger', 'C04.R1', 'FleetStore.move_to_ready_items',
     lambda p: M.delete_stmt(p, S_FLT, 'FleetStore.move_to_ready_items', M.stmt_calling('self._trigger_reserve_get')))
fire('C04', 'belt-cancel-granted-no-trigger', 'C04.R1', 'BeltStore.reserve_put_cancel',
     lambda p: M.delete_stmt(p, S_BELT, 'BeltStore.reserve_put_cancel', M.stmt_calling('self._trigger_reserve_put'), which=1))
fire('C04', 'prs-put-no-trigger', 'C04.R1', 'ReservablePriorityReqStore',
     lambda p: M.delete_stmt(p, S_PRS, 'ReservablePriorityReqStore.put', M.stmt_calling('self._trigger_reserve_get')))
fire('C04', 'fleet-reserve-put-no-trigger', 'C04.R1', 'FleetStore.reserve_put',
     lambda p: M.delete_stmt(p, S_FLT, 'FleetStore.reserve_put', M.stmt_calling('self._trigger_reserve_put')))
fire('C04', 'rs-cancel-get-trigger-before-rise', 'C04.R1', 'ReservableReqStore.reserve_get_cancel',
     lambda p: M.chain(p,
                       lambda q: M.delete_stmt(q, S_RS, 'ReservableReqStore.reserve_get_cancel', M.stmt_calling('self._trigger_reserve_get'), which=1),
                       lambda q: M.insert_before(q, S_RS, 'ReservableReqStore.reserve_get_cancel', M.stmt_calling('self.reservations_get.remove'),
                                                 'self._trigger_reserve_get(None)')))
fire('C04', 'fleet-trigger-hoisted-out-of-loop', 'C04.R1', 'FleetStore.move_to_ready_items',
     lambda p: M.replace_node(p, S_FLT, 'FleetStore.move_to_ready_items', lambda n: isinstance(n, ast.For),
                              lambda s: s.replace('self._trigger_reserve_get(None)', 'pass').replace('self._trigger_reserve_put(None)', 'pass')
                              + '\nself._trigger_reserve_get(None)\nself._trigger_reserve_put(None)'))
fire('C04', 'filter-cancel-pending-no-trigger', 'C04.R1', 'ReservablePriorityReqFilterStore.reserve_get_cancel',
     lambda p: M.delete_stmt(p, S_FS, 'ReservablePriorityReqFilterStore.reserve_get_cancel', M.stmt_calling('self._trigger_reserve_get'), which=0))
fire('C04', 'belt-phase1-event-not-fired', 'C04.R2', 'BeltStore.put',
     lambda p: M.delete_stmt(p, S_BELT, 'BeltStore.move_to_ready_items', M.stmt_calling('event.succeed')))
fire('C04', 'filter-no-timer', 'C04.R2', 'ReservablePriorityReqFilterStore.put',
     lambda p: M.delete_stmt(p, S_FS, 'ReservablePriorityReqFilterStore._do_put', M.stmt_calling('self.env.process')))
fire('C04', 'rs-service-loop-from-one', 'C04.R3', 'ReservableReqStore._trigger_reserve_put',
     lambda p: M.replace_node(p, S_RS, 'ReservableReqStore._trigger_reserve_put', M.assign_to('idx'), 'idx = 1'))
# the service loop breaks after its first iteration (the grant function returns None), so the index update is dead code
silent('C04', 'buffer-service-loop-index-update-dead',
       lambda p: M.replace_node(p, S_BUF, 'BufferStore._trigger_reserve_get', M.assign_to('idx'), 'idx += 0', which=1))
fire('C04', 'buffer-grant-extra-conjunct', 'C04.R4', 'BufferStore._do_reserve_get',
     lambda p: M.replace_node(p, S_BUF, 'BufferStore._do_reserve_get', M.compare_containing('reservations_get'),
                              lambda s: s + ' and len(self.reservations_get) < 1'))
fire('C04', 'fleet-grant-off-by-one', 'C04.R4', 'FleetStore._do_reserve_put',
     lambda p: M.replace_node(p, S_FLT, 'FleetStore._do_reserve_put', M.compare_containing('self.capacity'), sub('self.capacity', 'self.capacity - 1')))
silent('C04', 'buffer-get-extra-trigger',
       lambda p: M.insert_before(p, S_BUF, 'BufferStore.get', M.stmt_calling('self._trigger_reserve_put'), 'self._trigger_reserve_get(None)'))
silent('C04', 'prs-put-trigger-order',
       lambda p: M.insert_after(p, S_PRS, 'ReservablePriorityReqStore.put', M.stmt_calling('self._trigger_reserve_get'), 'self._trigger_reserve_put(None)'))
silent('C04', 'buffer-grant-rearranged',
       lambda p: M.replace_node(p, S_BUF, 'BufferStore._do_reserve_get', M.compare_containing('reservations_get'),
                                'len(self.ready_items) - len(self.reservations_get) > 0'))

# ============================================================================================ C07
fire('C07', 'buffer-get-no-process-check', 'C07.R1', 'BufferStore.get',
     lambda p: M.replace_node(p, S_BUF, 'BufferStore._do_get', lambda n: isinstance(n, ast.BoolOp) and 'requesting_process' in ast.unparse(n), 'ev == get_event'))
fire('C07', 'fleet-put-any-token', 'C07.R1', 'FleetStore.put',
     lambda p: M.replace_node(p, S_FLT, 'FleetStore._do_put', lambda n: isinstance(n, ast.BoolOp) and 'requesting_process' in ast.unparse(n),
                              'event.requesting_process == self.env.active_process'))
fire('C07', 'rs-cancel-unknown-silent', 'C07.R4', 'ReservableReqStore.reserve_put_cancel',
     lambda p: M.replace_node(p, S_RS, 'ReservableReqStore.reserve_put_cancel', lambda n: isinstance(n, ast.Raise), 'proceed = False'))
fire('C07', 'belt-put-effect-before-validation', 'C07.R3', 'BeltStore.put',
     lambda p: M.insert_before(p, S_BELT, 'BeltStore.put', M.if_testing('self.reservations_put'), 'self._update_time_averaged_level()'))
fire('C07', 'filter-put-spawn-before-validation', 'C07.R3', 'ReservablePriorityReqFilterStore.put',
     lambda p: M.insert_before(p, S_FS, 'ReservablePriorityReqFilterStore._do_put', M.assign_to('reserved_event'), 'self.env.process(self._add_trigger_event())'))
fire('C07', 'prs-get-token-reusable', 'C07.R5', 'ReservablePriorityReqStore.get',
     lambda p: M.delete_stmt(p, S_PRS, 'ReservablePriorityReqStore._do_get', M.stmt_calling('self.reservations_get.remove')))
fire('C07', 'slot-get-empty-valueerror', 'C07.R2', 'BeltStore.get',
     lambda p: M.replace_node(p, S_SLOT, 'BeltStore.get', lambda n: isinstance(n, ast.Raise), sub('RuntimeError', 'ValueError')))
fire('C07', 'buffer-put-lookup-none-accepted', 'C07.R2', 'BufferStore.put',
     lambda p: M.replace_node(p, S_BUF, 'BufferStore._do_put', M.if_testing('reserved_event is None'), 'if reserved_event is None:\n    reserved_event = put_event'))
fire('C07', 'fleet-cancel-get-keeps-token', 'C07.R5', 'FleetStore.reserve_get_cancel',
     lambda p: M.delete_stmt(p, S_FLT, 'FleetStore.reserve_get_cancel', M.stmt_calling('self.reservations_get.remove')))
silent('C07', 'fleet-put-return-false-then-raise',
       lambda p: M.replace_node(p, S_FLT, 'FleetStore._do_put', M.if_testing('reserved_event is None'), 'if reserved_event is None:\n    return False'))
silent('C07', 'buffer-get-predicate-reordered',
       lambda p: M.replace_node(p, S_BUF, 'BufferStore._do_get', lambda n: isinstance(n, ast.BoolOp) and 'requesting_process' in ast.unparse(n),
                                'self.env.active_process == ev.requesting_process and get_event == ev'))
silent('C07', 'rs-cancel-early-return',
       lambda p: M.replace_node(p, S_RS, 'ReservableReqStore.reserve_put_cancel', M.assign_to('proceed'), 'return True', which=1))

# ============================================================================================ C10
fire('C10', 'sink-no-cancel', 'C10.R1', 'Sink.behaviour',
     lambda p: M.delete_stmt(p, N_SNK, 'Sink.behaviour', M.stmt_calling('.reserve_get_cancel')))
fire('C10', 'machine-worker-cancel-narrowed', 'C10.R', 'Machine.worker',
     lambda p: M.replace_node(p, N_MAC, 'Machine.worker', M.if_testing('event is not chosen_put_event'),
                              sub('event is not chosen_put_event', 'event is not chosen_put_event and event.triggered')))
fire('C10', 'source-chosen-cancelled-too', 'C10.R', 'Source.behaviour',
     lambda p: M.delete_stmt(p, N_SRC, 'Source.behaviour', M.stmt_calling('self.out_edge_events.remove')))
fire('C10', 'machine-stray-wait-before-pull', 'C10.R3', 'Machine.behaviour',
     lambda p: M.insert_after(p, N_MAC, 'Machine.behaviour', M.stmt_calling('._update_worker_occupancy'), 'yield self.env.timeout(0.5)'))
fire('C10', 'sink-stray-wait', 'C10.R', 'Sink.behaviour',
     lambda p: M.insert_before(p, N_SNK, 'Sink.behaviour', M.assign_to("self.stats['num_item_received']"), 'yield self.env.timeout(1)'))
fire('C10', 'machine-worker-token-stranded', 'C10.R1', 'Machine.worker',
     lambda p: M.insert_after(p, N_MAC, 'Machine.worker', lambda n: isinstance(n, ast.Expr) and isinstance(n.value, ast.Yield) and 'put_event' == ast.unparse(n.value.value),
                              'if item is None:\n    return'))
fire('C10', 'combiner-pop-wrong-token', 'C10.R1', 'Combiner.behaviour',
     lambda p: M.replace_node(p, N_CMB, 'Combiner.behaviour', M.stmt_calling('reservation_tokens.pop'), 'reservation_tokens.pop(0)'))
fire('C10', 'splitter-behaviour-cancel-dropped', 'C10.R1', 'Splitter.behaviour',
     lambda p: M.replace_node(p, N_SPL, 'Splitter.behaviour', M.if_testing('event is not self.chosen_event'), 'pass'))
fire('C10', 'machine-cancel-on-edge-not-store', 'C10.R2', 'Machine.worker',
     lambda p: M.replace_node(p, N_MAC, 'Machine.worker', M.stmt_calling('.reserve_put_cancel'), 'self.out_edges[0].inbuiltstore.reserve_put_cancel(event)'))
silent('C10', 'machine-worker-cancel-neq',
       lambda p: M.replace_node(p, N_MAC, 'Machine.worker', M.if_testing('event is not chosen_put_event'), sub('event is not chosen_put_event', 'event != chosen_put_event')))
silent('C10', 'sink-extra-logging',
       lambda p: M.insert_before(p, N_SNK, 'Sink.behaviour', M.assign_to("self.stats['num_item_received']"), 'print("got one")'))

# ============================================================================================ C03
fire('C03', 'machine-worker-silent-drop', 'C03.R1', 'Machine.worker',
     lambda p: M.delete_stmt(p, N_MAC, 'Machine.worker', M.assign_to("self.stats['num_item_discarded']"), which=0))
fire('C03', 'machine-worker-put-twice', 'C03.R', 'Machine.worker',
     lambda p: M.insert_after(p, N_MAC, 'Machine.worker', M.assign_to('y'), 'y = outedge_to_put.put(put_event, item)'))
fire('C03', 'source-generated-not-counted', 'C03.R2', 'Source.behaviour',
     lambda p: M.delete_stmt(p, N_SRC, 'Source.behaviour', M.assign_to("self.stats['num_item_generated']")))
fire('C03', 'sink-received-counted-twice', 'C03.R', 'Sink.behaviour',
     lambda p: M.insert_after(p, N_SNK, 'Sink.behaviour', M.assign_to("self.stats['num_item_received']"), "self.stats['num_item_received'] += 1"))
fire('C03', 'splitter-item-skipped', 'C03.R1', 'Splitter.worker',
     lambda p: M.insert_after(p, N_SPL, 'Splitter.worker', M.assign_to('item'), 'if item is None:\n    continue'), accept_analysis_error=False)
fire('C03', 'combiner-item-not-packed', 'C03.R1', 'Combiner.behaviour',
     lambda p: M.delete_stmt(p, N_CMB, 'Combiner.behaviour', M.stmt_calling('.add_item')))
fire('C03', 'machine-processed-double-count', 'C03.R2', 'Machine.worker',
     lambda p: M.insert_before(p, N_MAC, 'Machine.worker', M.assign_to('itemput'), "self.stats['num_item_processed'] += 1"))
fire('C03', 'source-push-item-no-put', 'C03.R1', 'Source._push_item',
     lambda p: M.replace_node(p, N_SRC, 'Source._push_item', M.assign_to('y'), 'y = True'))
fire('C03', 'machine-behaviour-item-not-handed-over', 'C03.R1', 'Machine.behaviour',
     lambda p: M.replace_node(p, N_MAC, 'Machine.behaviour', M.assign_to('proc'), sub('self.item_in_process, next_processing_time', 'None, next_processing_time')))
silent('C03', 'machine-worker-renamed-local',
       lambda p: M.replace_node(p, N_MAC, 'Machine._push_item', lambda n: isinstance(n, ast.If), sub('put_token', 'tok')))
silent('C03', 'sink-logging',
       lambda p: M.insert_after(p, N_SNK, 'Sink.behaviour', M.assign_to("self.stats['num_item_received']"), 'print("received")'))

# ============================================================================================ C05
PQ = 'base/priority_req_store.py'
fire('C05', 'prs-sort-wrong-key', 'C05.R1', 'ReservablePriorityReqStore.reserve_get',
     lambda p: M.replace_node(p, S_PRS, 'ReservablePriorityReqStore.reserve_get', M.is_call('self.reserve_get_queue.sort'), sub('e.priority_to_get', 'e.priority_to_put')))
fire('C05', 'fleet-sort-reversed', 'C05.R1', 'FleetStore.reserve_put',
     lambda p: M.replace_node(p, S_FLT, 'FleetStore.reserve_put', M.is_call('self.reserve_put_queue.sort'), sub('key=', 'reverse=True, key=')))
fire('C05', 'slot-priority-not-stored', 'C05.R1', 'BeltStore.reserve_put',
     lambda p: M.replace_node(p, S_SLOT, 'BeltStore.reserve_put', M.assign_to('event.priority_to_put'), 'event.priority_to_put = 0'))
fire('C05', 'filter-sort-deleted', 'C05.R1', 'ReservablePriorityReqFilterStore.reserve_put',
     lambda p: M.delete_stmt(p, S_FS, 'ReservablePriorityReqFilterStore.reserve_put', M.stmt_calling('self.reserve_put_queue.sort')))
fire('C05', 'buffer-enqueue-at-front', 'C05.R', 'BufferStore.reserve_put',
     lambda p: M.replace_node(p, S_BUF, 'BufferStore.reserve_put', M.stmt_calling('self.reserve_put_queue.append'), 'self.reserve_put_queue.insert(0, event)'))
# removing the head instead of the cancelled request is wrong (C07/C04), but the relative service order of the remaining requests - C05 - is unchanged
silent('C05', 'rs-cancel-pops-head (C05 still holds)',
       lambda p: M.replace_node(p, S_RS, 'ReservableReqStore.reserve_get_cancel', M.stmt_calling('self.reserve_get_queue.remove'), 'self.reserve_get_queue.pop(0)'))
fire('C05', 'rs-cancel-pops-tail', 'C05.R2', 'ReservableReqStore.reserve_get_cancel',
     lambda p: M.replace_node(p, S_RS, 'ReservableReqStore.reserve_get_cancel', M.stmt_calling('self.reserve_get_queue.remove'), 'self.reserve_get_queue.pop()'))
fire('C05', 'belt-put-reverses-queue', 'C05.R2', 'BeltStore',
     lambda p: M.insert_after(p, S_BELT, 'BeltStore.put', M.stmt_calling('self._trigger_reserve_get'), 'self.reserve_get_queue.reverse()'))
fire('C05', 'sortedqueue-descending', 'C05.R4', 'SortedQueue.append',
     lambda p: M.replace_node(p, PQ, 'SortedQueue.append', M.is_call('.sort'), sub('key=', 'reverse=True, key=')))
fire('C05', 'priorityget-key-after-enqueue', 'C05.R4', 'PriorityGet.__init__',
     lambda p: M.chain(p, lambda q: M.delete_stmt(q, PQ, 'PriorityGet.__init__', M.assign_to('self.key')),
                       lambda q: M.insert_after(q, PQ, 'PriorityGet.__init__', M.stmt_calling('.__init__'), 'self.key = (self.priority, self.time)')))
fire('C05', 'priorityput-key-time-first', 'C05.R4', 'PriorityPut.__init__',
     lambda p: M.replace_node(p, PQ, 'PriorityPut.__init__', M.assign_to('self.key'), 'self.key = (self.time, self.priority)'))
fire('C05', 'machine-passes-priority', 'C05.R5', 'Machine._push_item',
     lambda p: M.replace_node(p, N_MAC, 'Machine._push_item', M.is_call('.reserve_put'), 'outstore.reserve_put(priority=1)'))
fire('C05', 'fleet-grant-reads-request', 'C05.R3', 'FleetStore._do_reserve_put',
     lambda p: M.replace_node(p, S_FLT, 'FleetStore._do_reserve_put', M.compare_containing('self.capacity'), lambda s: s + ' and event.priority_to_put < 5'))
silent('C05', 'prs-lambda-renamed',
       lambda p: M.replace_node(p, S_PRS, 'ReservablePriorityReqStore.reserve_put', M.is_call('self.reserve_put_queue.sort'), 'self.reserve_put_queue.sort(key=lambda ev: ev.priority_to_put)'))
silent('C05', 'fleet-logging',
       lambda p: M.insert_before(p, S_FLT, 'FleetStore.reserve_get', M.stmt_calling('self.reserve_get_queue.append'), 'print("enqueue", priority)'))

# ============================================================================================ C11
fire('C11', 'buffer-can-put-ignores-reservations', 'C11.R1', 'Buffer.can_put',
     lambda p: M.replace_node(p, E_BUF, 'Buffer.can_put', lambda n: isinstance(n, ast.Return) and 'reservations_put' in ast.unparse(n),
                              'return (self.capacity - len(self.inbuiltstore.items) - len(self.inbuiltstore.ready_items)) > 0'))
fire('C11', 'fleet-can-put-ge', 'C11.R1', 'Fleet.can_put',
     lambda p: M.replace_node(p, E_FLT, 'Fleet.can_put', lambda n: isinstance(n, ast.Return) and 'reservations_put' in ast.unparse(n), sub('>len', '>=len')))
fire('C11', 'buffer-can-put-ignores-ready', 'C11.R1', 'Buffer.can_put',
     lambda p: M.replace_node(p, E_BUF, 'Buffer.can_put', lambda n: isinstance(n, ast.Return) and 'reservations_put' in ast.unparse(n),
                              'return (self.capacity - len(self.inbuiltstore.items)) > len(self.inbuiltstore.reservations_put)'))
fire('C11', 'buffer-can-get-counts-in-transit', 'C11.R2', 'Buffer.can_get',
     lambda p: M.replace_node(p, E_BUF, 'Buffer.can_get', lambda n: isinstance(n, ast.Return) and 'reservations_get' in ast.unparse(n),
                              'return len(self.inbuiltstore.ready_items) + len(self.inbuiltstore.items) > len(self.inbuiltstore.reservations_get)'))
fire('C11', 'fleet-can-get-ignores-reservations', 'C11.R2', 'Fleet.can_get',
     lambda p: M.replace_node(p, E_FLT, 'Fleet.can_get', lambda n: isinstance(n, ast.Return) and 'reservations_get' in ast.unparse(n), 'return True'))
fire('C11', 'buffer-occupancy-ready-only', 'C11.R3', 'Buffer.occupancy',
     lambda p: M.replace_node(p, E_BUF, 'Buffer.occupancy', lambda n: isinstance(n, ast.Return), 'return len(self.inbuiltstore.ready_items)'))
fire('C11', 'bufferstore-ready-before-timer', 'C11.R4', 'BufferStore.move_to_ready_items',
     lambda p: M.delete_stmt(p, S_BUF, 'BufferStore.move_to_ready_items', lambda n: isinstance(n, ast.Expr) and isinstance(n.value, ast.Yield)))
fire('C11', 'bufferstore-timer-constant', 'C11.R4', 'BufferStore.move_to_ready_items',
     lambda p: M.replace_node(p, S_BUF, 'BufferStore.move_to_ready_items', M.is_call('self.env.timeout'), 'self.env.timeout(1)'))
fire('C11', 'bufferstore-put-straight-to-ready', 'C11.R4', 'BufferStore',
     lambda p: M.insert_after(p, S_BUF, 'BufferStore._do_put', M.stmt_calling('self.items.append'), 'self.ready_items.append(item[0])'))
fire('C11', 'buffer-put-draws-twice', 'C11.R5', 'Buffer.put',
     lambda p: M.insert_after(p, E_BUF, 'Buffer.put', M.assign_to('delay'), 'delay = self.get_delay(self.delay)'))
fire('C11', 'buffer-put-stores-other-delay', 'C11.R5', 'Buffer.put',
     lambda p: M.replace_node(p, E_BUF, 'Buffer.put', M.is_call('self.inbuiltstore.put'), sub('(item,delay)', '(item, 0)')))
fire('C11', 'edge-get-delay-no-check', 'C11.R5', 'Edge.get_delay',
     lambda p: M.delete_stmt(p, 'edges/edge.py', 'Edge.get_delay', lambda n: isinstance(n, ast.Assert)))
silent('C11', 'buffer-can-put-rearranged',
       lambda p: M.replace_node(p, E_BUF, 'Buffer.can_put', lambda n: isinstance(n, ast.Return) and 'reservations_put' in ast.unparse(n),
                                'return len(self.inbuiltstore.reservations_put) + len(self.inbuiltstore.items) + len(self.inbuiltstore.ready_items) < self.capacity'))
silent('C11', 'buffer-can-put-early-test-dropped',
       lambda p: M.replace_node(p, E_BUF, 'Buffer.can_put', lambda n: isinstance(n, ast.If), 'pass'))
silent('C11', 'fleet-can-get-single-expression',
       lambda p: M.replace_node(p, E_FLT, 'Fleet.can_get', lambda n: isinstance(n, ast.If), 'pass'))

# ============================================================================================ C02
OLD_IDX = 'insert_idx = len(self.ready_items) - len(self.reserved_events) - 1'
fire('C02', 'buffer-cancel-old-index (defect D1 re-introduced)', 'C02.R3', 'BufferStore.reserve_get_cancel::reinsert[FIFO]',
     lambda p: M.replace_node(p, S_BUF, 'BufferStore.reserve_get_cancel', M.assign_to('insert_idx'), OLD_IDX, which=0))
fire('C02', 'fleet-cancel-old-index (defect D1 re-introduced)', 'C02.R3', 'FleetStore.reserve_get_cancel::reinsert[FIFO]',
     lambda p: M.replace_node(p, S_FLT, 'FleetStore.reserve_get_cancel', M.assign_to('insert_idx'), OLD_IDX))
fire('C02', 'belt-cancel-append-at-end', 'C02.R3', 'BeltStore.reserve_get_cancel::reinsert[FIFO]',
     lambda p: M.replace_node(p, S_BELT, 'BeltStore.reserve_get_cancel', M.assign_to('insert_idx'), 'insert_idx = len(self.ready_items)'))
fire('C02', 'prs-cancel-off-by-one', 'C02.R3', 'ReservablePriorityReqStore.reserve_get_cancel::reinsert',
     lambda p: M.replace_node(p, S_PRS, 'ReservablePriorityReqStore.reserve_get_cancel', M.stmt_calling('self.items.insert'), sub('delta_position-1', 'delta_position')))
fire('C02', 'buffer-binder-off-by-one', 'C02.R3', 'BufferStore._do_reserve_get::binder',
     lambda p: M.replace_node(p, S_BUF, 'BufferStore._do_reserve_get', M.assign_to('item'), 'item = self.ready_items[j + 1]', which=0))
fire('C02', 'fleet-arrival-at-front', 'C02.R3', 'FleetStore.move_to_ready_items',
     lambda p: M.replace_node(p, S_FLT, 'FleetStore.move_to_ready_items', M.stmt_calling('self.ready_items.append'), 'self.ready_items.insert(0, item_to_put)'))
fire('C02', 'rs-get-pops-head', 'C02.R', 'ReservableReqStore.get',
     lambda p: M.replace_node(p, S_RS, 'ReservableReqStore._do_get', M.assign_to('assigned_item'), 'assigned_item = self.items.pop(0)'))
fire('C02', 'buffer-get-wrong-parallel-index', 'C02.R3', 'BufferStore.get',
     lambda p: M.replace_node(p, S_BUF, 'BufferStore._do_get', M.assign_to('assigned_item'), 'assigned_item = self.reserved_items.pop(0)'))
fire('C02', 'buffer-get-keeps-item', 'C02.R1', 'BufferStore.get',
     lambda p: M.delete_stmt(p, S_BUF, 'BufferStore._do_get', M.stmt_calling('self.ready_items.remove')))
fire('C02', 'fleet-move-duplicates-item', 'C02.R1', 'FleetStore.move_to_ready_items',
     lambda p: M.replace_node(p, S_FLT, 'FleetStore.move_to_ready_items', M.assign_to('item_to_put'), 'item_to_put = self.items[item_index]'))
fire('C02', 'buffer-move-appends-wrapper', 'C02.R', 'Buffer',
     lambda p: M.replace_node(p, S_BUF, 'BufferStore.move_to_ready_items', M.stmt_calling('self.ready_items.append'), 'self.ready_items.append(item_to_put)'))
fire('C02', 'fleet-edge-wraps-item', 'C02.R2', 'Fleet.put',
     lambda p: M.replace_node(p, E_FLT, 'Fleet.put', M.is_call('self.inbuiltstore.put'), 'self.inbuiltstore.put(event, (item, delay))'))
fire('C02', 'buffer-edge-get-returns-other', 'C02.R2', 'Buffer.get',
     lambda p: M.replace_node(p, E_BUF, 'Buffer.get', lambda n: isinstance(n, ast.Return), 'return event'))
fire('C02', 'prs-grant-not-strict', 'C02.R4', 'ReservablePriorityReqStore',
     lambda p: M.replace_node(p, S_PRS, 'ReservablePriorityReqStore._do_reserve_get', M.compare_containing('reservations_get'), sub('<', '<=')))
fire('C02', 'buffer-cancel-keeps-reserved-item', 'C02.R4', 'BufferStore.reserve_get_cancel',
     lambda p: M.replace_node(p, S_BUF, 'BufferStore.reserve_get_cancel', M.assign_to('item'), 'item = self.reserved_items[ev_idx]'))
silent('C02', 'buffer-cancel-index-rewritten',
       lambda p: M.replace_node(p, S_BUF, 'BufferStore.reserve_get_cancel', M.assign_to('insert_idx'),
                                'insert_idx = len(self.reservations_get) + len(self.reserved_events) - len(self.reservations_get)', which=0))
silent('C02', 'prs-cancel-locals-renamed',
       lambda p: M.replace_node(p, S_PRS, 'ReservablePriorityReqStore.reserve_get_cancel', M.if_testing('get_event_to_cancel in self.reserve_get_queue'),
                                lambda s: s.replace('item_to_shift', 'moved').replace('delta_position', 'n_reserved')))

# ============================================================================================ C06
fire('C06', 'buffer-cancel-old-index (defect D1 re-introduced)', 'C06.R2', 'BufferStore.reserve_get_cancel::reinsert[FIFO]',
     lambda p: M.replace_node(p, S_BUF, 'BufferStore.reserve_get_cancel', M.assign_to('insert_idx'), OLD_IDX, which=0))
fire('C06', 'slotted-cancel-old-index (defect D1 re-introduced)', 'C06.R2', 'BeltStore.reserve_get_cancel::reinsert[FIFO]',
     lambda p: M.replace_node(p, S_SLOT, 'BeltStore.reserve_get_cancel', M.assign_to('insert_idx'), OLD_IDX, which=0))
fire('C06', 'rs-cancel-to-end', 'C06.R2', 'ReservableReqStore.reserve_get_cancel',
     lambda p: M.replace_node(p, S_RS, 'ReservableReqStore.reserve_get_cancel', M.stmt_calling('self.items.insert'), 'self.items.append(item_to_shift)'))
fire('C06', 'fleet-binder-takes-last', 'C06.R1', 'FleetStore._do_reserve_get',
     lambda p: M.replace_node(p, S_FLT, 'FleetStore._do_reserve_get', M.assign_to('item'), 'item = self.ready_items[-1 - j]'))
fire('C06', 'belt-arrival-at-front', 'C06.R1', 'BeltStore.move_to_ready_items',
     lambda p: M.replace_node(p, S_BELT, 'BeltStore.move_to_ready_items', M.stmt_calling('self.ready_items.append'), 'self.ready_items.insert(0, item_to_put[0])'))
fire('C06', 'machine-picks-last-triggered', 'C06.R4', 'Machine.behaviour',
     lambda p: M.replace_node(p, N_MAC, 'Machine.behaviour', M.assign_to('self.chosen_event'),
                              'self.chosen_event = next((event for event in reversed(self.in_edge_events) if event.triggered), None)'))
fire('C06', 'sink-picks-any', 'C06.R4', 'Sink.behaviour',
     lambda p: M.replace_node(p, N_SNK, 'Sink.behaviour', M.assign_to('self.chosen_event'),
                              'self.chosen_event = next((event for event in self.in_edge_events if event is not None), None)'))
fire('C06', 'splitter-behaviour-no-cancel', 'C06.R4', 'Splitter.behaviour',
     lambda p: M.replace_node(p, N_SPL, 'Splitter.behaviour', M.if_testing('event is not self.chosen_event'), 'pass'))
silent('C06', 'machine-lookup-var-renamed',
       lambda p: M.replace_node(p, N_MAC, 'Machine.behaviour', M.assign_to('self.chosen_event'),
                                'self.chosen_event = next((ev for ev in self.in_edge_events if ev.triggered), None)'))

# ============================================================================================ C18
fire('C18', 'prs-get-no-level-update', 'C18.R1', 'ReservablePriorityReqStore',
     lambda p: M.delete_stmt(p, S_PRS, 'ReservablePriorityReqStore.get', M.stmt_calling('self._update_time_averaged_level')))
fire('C18', 'buffer-put-no-level-update', 'C18.R1', 'BufferStore._do_put',
     lambda p: M.delete_stmt(p, S_BUF, 'BufferStore._do_put', M.stmt_calling('self._update_time_averaged_level')))
fire('C18', 'fleet-get-level-before-removal', 'C18.R1', 'FleetStore._do_get',
     lambda p: M.chain(p, lambda q: M.delete_stmt(q, S_FLT, 'FleetStore._do_get', M.stmt_calling('self._update_time_averaged_level')),
                       lambda q: M.insert_before(q, S_FLT, 'FleetStore._do_get', M.assign_to('ev_idx'), 'self._update_time_averaged_level()')))
fire('C18', 'buffer-level-items-only', 'C18.R2', 'BufferStore._update_time_averaged_level',
     lambda p: M.replace_node(p, S_BUF, 'BufferStore._update_time_averaged_level', M.assign_to('self._last_num_items'), 'self._last_num_items = len(self.items)'))
fire('C18', 'conveyor-final-level-ready-only', 'C18.R2', 'update_final_conveyor_avg_content',
     lambda p: M.replace_node(p, E_CC, 'ConveyorBelt.update_final_conveyor_avg_content', M.assign_to('self.belt._last_num_items'),
                              'self.belt._last_num_items = len(self.belt.ready_items)'))
fire('C18', 'rs-level-refreshed-before-integration', 'C18.R3', 'ReservableReqStore._update_time_averaged_level',
     lambda p: M.chain(p, lambda q: M.delete_stmt(q, S_RS, 'ReservableReqStore._update_time_averaged_level', M.assign_to('self._last_num_items')),
                       lambda q: M.insert_before(q, S_RS, 'ReservableReqStore._update_time_averaged_level', M.assign_to('self._weighted_sum'),
                                                 'self._last_num_items = len(self.items)')))
fire('C18', 'fleet-edge-final-wrong-interval', 'C18.R3', 'Fleet.update_final_fleet_avg_content',
     lambda p: M.replace_node(p, E_FLT, 'Fleet.update_final_fleet_avg_content', M.assign_to('interval'), 'interval = now'))
fire('C18', 'machine-processed-double-count', 'C18.R4', 'Machine.worker',
     lambda p: M.insert_before(p, N_MAC, 'Machine.worker', M.assign_to('itemput'), "self.stats['num_item_processed'] += 1"))
fire('C18', 'sink-cycle-time-overwritten', 'C18.R5', 'Sink.behaviour',
     lambda p: M.replace_node(p, N_SNK, 'Sink.behaviour', M.assign_to("self.stats['total_cycle_time']"),
                              "self.stats['total_cycle_time'] = self.env.now - self.item_in_process.timestamp_creation"))
fire('C18', 'sink-cycle-time-from-node-entry', 'C18.R5', 'Sink.behaviour',
     lambda p: M.replace_node(p, N_SNK, 'Sink.behaviour', M.assign_to("self.stats['total_cycle_time']"), sub('timestamp_creation', 'timestamp_node_exit')))
fire('C18', 'item-creation-stamp-zero', 'C18.R6', 'set_creation',
     lambda p: M.replace_node(p, 'helper/baseflowitem.py', 'BaseFlowItem.set_creation', M.assign_to('self.timestamp_creation'), 'self.timestamp_creation = 0'))
fire('C18', 'conveyor-entry-stamp-shifted', 'C18.R6', 'ConveyorBelt.put',
     lambda p: M.replace_node(p, E_SC, 'ConveyorBelt.put', M.assign_to('item.conveyor_entry_time'), 'item.conveyor_entry_time = self.env.now + self.delay'))
silent('C18', 'prs-extra-level-update',
       lambda p: M.insert_before(p, S_PRS, 'ReservablePriorityReqStore.put', M.if_testing('self.reservations_put'), 'pass'))
silent('C18', 'buffer-level-summands-swapped',
       lambda p: M.replace_node(p, S_BUF, 'BufferStore._update_time_averaged_level', M.assign_to('self._last_num_items'),
                                'self._last_num_items = len(self.ready_items) + len(self.items)'))

# ============================================================================================ C08
fire('C08', 'machine-pull-before-slot', 'C08.R1', 'Machine.behaviour',
     lambda p: M.delete_stmt(p, N_MAC, 'Machine.behaviour', lambda n: isinstance(n, ast.Expr) and isinstance(n.value, ast.Yield) and ast.unparse(n.value.value) == 'worker_thread_req'))
fire('C08', 'machine-worker-no-release-on-discard', 'C08.R2', 'Machine.worker',
     lambda p: M.insert_after(p, N_MAC, 'Machine.worker', M.assign_to("self.stats['num_item_discarded']"), 'return', which=0))
fire('C08', 'splitter-worker-release-before-push', 'C08.R2', 'Splitter.worker',
     lambda p: M.insert_after(p, N_SPL, 'Splitter.worker', M.stmt_calling('self._update_avg_time_spent_in_processing'), 'yield self.worker_thread.release(req_token)'))
fire('C08', 'machine-resource-capacity-plus-one', 'C08.R3', 'Machine.__init__',
     lambda p: M.replace_node(p, N_MAC, 'Machine.__init__', M.is_call('simpy.Resource'), sub('capacity=self.work_capacity', 'capacity=self.work_capacity + 1')))
fire('C08', 'combiner-capacity-two', 'C08.R3', 'Combiner.__init__',
     lambda p: M.replace_node(p, N_CMB, 'Combiner.__init__', M.assign_to('self.work_capacity'), 'self.work_capacity = 2'))
fire('C08', 'machine-delay-drawn-twice', 'C08.R4', 'Machine',
     lambda p: M.insert_after(p, N_MAC, 'Machine.behaviour', M.assign_to('next_processing_time'), 'next_processing_time = self.get_delay(self.processing_delay)'))
fire('C08', 'machine-worker-waits-twice', 'C08.R4', 'Machine',
     lambda p: M.insert_after(p, N_MAC, 'Machine.worker', M.assign_to('processing_start_time'), 'yield self.env.timeout(processing_delay)'))
fire('C08', 'splitter-worker-waits-on-expression', 'C08.R4', 'Splitter',
     lambda p: M.replace_node(p, N_SPL, 'Splitter.worker', M.is_call('self.env.timeout'), 'self.env.timeout(processing_delay * 2)'))
fire('C08', 'combiner-delay-not-waited', 'C08.R4', 'Combiner',
     lambda p: M.delete_stmt(p, N_CMB, 'Combiner.behaviour', lambda n: isinstance(n, ast.Expr) and isinstance(n.value, ast.Yield) and 'next_processing_time' in ast.unparse(n)))
fire('C08', 'machine-worker-extra-wait-before-push', 'C08.R', 'Machine',
     lambda p: M.insert_after(p, N_MAC, 'Machine.worker', M.stmt_calling('self._update_avg_time_spent_in_processing'), 'yield self.env.timeout(1)'))
fire('C08', 'machine-behaviour-wait-before-spawn', 'C08.R5', 'Machine',
     lambda p: M.insert_before(p, N_MAC, 'Machine.behaviour', M.assign_to('proc'), 'yield self.env.timeout(0.1)'))
silent('C08', 'machine-delay-local-renamed',
       lambda p: M.replace_node(p, N_MAC, 'Machine.behaviour', lambda n: isinstance(n, ast.While), sub('next_processing_time', 'delay_for_this_item')))

# ============================================================================================ C09
fire('C09', 'source-stale-edge (defect D5 re-introduced)', 'C09.R4', 'Source.behaviour',
     lambda p: M.replace_node(p, N_SRC, 'Source.behaviour', M.assign_to('out_edge_to_put'), 'out_edge_index_to_put = None', which=0))
fire('C09', 'machine-decision-var-not-reset', 'C09.R4', 'Machine.worker',
     lambda p: M.delete_stmt(p, N_MAC, 'Machine.worker', M.assign_to('out_edge_index_to_put'), which=0))
fire('C09', 'machine-blocking-discards', 'C09.R1', 'Machine.worker',
     lambda p: M.insert_after(p, N_MAC, 'Machine.worker', M.assign_to('blocking_start_time'), "self.stats['num_item_discarded'] += 1", which=0))
fire('C09', 'machine-nonblocking-push-without-probe', 'C09.R2', 'Machine.worker',
     lambda p: M.replace_node(p, N_MAC, 'Machine.worker', M.if_testing('outedge_to_put.can_put()'), sub('outedge_to_put.can_put()', 'True')))
fire('C09', 'source-nonblocking-probe-other-edge', 'C09.R2', 'Source.behaviour',
     lambda p: M.replace_node(p, N_SRC, 'Source.behaviour', M.if_testing('outedge_to_put.can_put()'), sub('outedge_to_put.can_put()', 'self.out_edges[0].can_put()')))
fire('C09', 'combiner-nonblocking-waits-before-push', 'C09.R2', 'Combiner.worker',
     lambda p: M.insert_after(p, N_CMB, 'Combiner.worker', M.assign_to('blocking_start_time'), 'yield self.env.timeout(0)', which=3))
fire('C09', 'splitter-refusal-not-counted', 'C09.R3', 'Splitter.worker',
     lambda p: M.delete_stmt(p, N_SPL, 'Splitter.worker', M.assign_to("self.stats['num_item_discarded']"), which=1))
fire('C09', 'machine-refusal-counted-twice', 'C09.R3', 'Machine.worker',
     lambda p: M.insert_after(p, N_MAC, 'Machine.worker', M.assign_to("self.stats['num_item_discarded']"), "self.stats['num_item_discarded'] += 1", which=1))
fire('C09', 'source-refusal-waits', 'C09.R3', 'Source.behaviour',
     lambda p: M.insert_before(p, N_SRC, 'Source.behaviour', M.assign_to("self.stats['num_item_discarded']"), 'yield self.env.timeout(1)', which=1))
fire('C09', 'machine-nonblocking-reserves-itself', 'C09.R2', 'Machine.worker',
     lambda p: M.replace_node(p, N_MAC, 'Machine.worker', lambda n: isinstance(n, ast.Expr) and isinstance(n.value, ast.Yield) and '_push_item(item, outedge_to_put)' in ast.unparse(n),
                              'tok = outedge_to_put.reserve_put()\nyield tok\noutedge_to_put.put(tok, item)'))
fire('C09', 'buffer-can-put-reads-missing-attr', 'C09.R5', 'Buffer.can_put',
     lambda p: M.replace_node(p, E_BUF, 'Buffer.can_put', lambda n: isinstance(n, ast.If), 'if self.inp_buf is None:\n    return False'))
silent('C09', 'machine-probe-result-in-local',
       lambda p: M.replace_node(p, N_MAC, 'Machine.worker', M.assign_to('out_edge_index_to_put'), 'out_edge_index_to_put = None  # reset for this item', which=0))

# ============================================================================================ C15
U = 'utils/utils.py'
fire('C15', 'roundrobin-starts-at-one', 'C15.R5', 'RoundRobin_edge_selector',
     lambda p: M.replace_node(p, U, 'RoundRobin_edge_selector', M.assign_to('i'), 'i = 1', which=0))
fire('C15', 'roundrobin-steps-by-two', 'C15.R5', 'RoundRobin_edge_selector',
     lambda p: M.replace_node(p, U, 'RoundRobin_edge_selector', M.assign_to('i'), 'i = (i + 2) % len(edges)', which=1))
fire('C15', 'roundrobin-advance-before-yield', 'C15.R5', 'RoundRobin_edge_selector',
     lambda p: M.chain(p, lambda q: M.delete_stmt(q, U, 'RoundRobin_edge_selector', M.assign_to('i'), which=1),
                       lambda q: M.insert_before(q, U, 'RoundRobin_edge_selector', lambda n: isinstance(n, ast.Expr) and isinstance(n.value, ast.Yield), 'i = (i + 1) % len(edges)')))
fire('C15', 'random-off-by-one', 'C15.R6', 'Random_edge_selector',
     lambda p: M.replace_node(p, U, 'Random_edge_selector', M.is_call('random.randint'), 'random.randint(0, len(edges))'))
fire('C15', 'names-swapped', 'C15.R7', 'get_edge_selector',
     lambda p: M.replace_node(p, U, 'get_edge_selector', lambda n: isinstance(n, ast.Dict), '{"RANDOM": RoundRobin_edge_selector, "ROUND_ROBIN": Random_edge_selector}'))
fire('C15', 'machine-in-policy-on-out-edges', 'C15.R7', 'Machine.reset',
     lambda p: M.replace_node(p, N_MAC, 'Machine.reset', M.is_call('get_edge_selector', 'in_edge_selection'), sub('"IN"', '"OUT"')))
fire('C15', 'machine-selector-wraps-index', 'C15.R1', 'Machine._get_out_edge_index',
     lambda p: M.replace_node(p, N_MAC, 'Machine._get_out_edge_index', M.assign_to('val'), 'val = next(self.out_edge_selection) % len(self.out_edges)', which=1))
fire('C15', 'splitter-selector-consults-twice', 'C15.R1', 'Splitter._get_in_edge_index',
     lambda p: M.insert_after(p, N_SPL, 'Splitter._get_in_edge_index', M.assign_to('val'), 'val = self.in_edge_selection()', which=2))
fire('C15', 'machine-worker-selector-twice', 'C15.R1', 'Machine.worker',
     lambda p: M.insert_after(p, N_MAC, 'Machine.worker', M.assign_to('out_edge_index_to_put'), 'out_edge_index_to_put = self._get_out_edge_index()', which=1))
fire('C15', 'machine-worker-ignores-answer', 'C15.R1', 'Machine.worker',
     lambda p: M.replace_node(p, N_MAC, 'Machine.worker', M.assign_to('outedge_to_put'), 'outedge_to_put = self.out_edges[0]'))
fire('C15', 'machine-no-range-assert', 'C15.R3', 'Machine',
     lambda p: M.chain(p, lambda q: M.delete_stmt(q, N_MAC, 'Machine._get_out_edge_index', lambda n: isinstance(n, ast.Assert)),
                       lambda q: M.delete_stmt(q, N_MAC, 'Machine.worker', lambda n: isinstance(n, ast.Assert))))
fire('C15', 'source-no-range-check', 'C15.R3', 'Source.behaviour',
     lambda p: M.replace_node(p, N_SRC, 'Source.behaviour', M.if_testing('out_edge_index_to_put >= len(self.out_edges)'), 'pass'))
fire('C15', 'machine-blocking-fa-records-wrong-index', 'C15.R2', 'Machine.worker',
     lambda p: M.replace_node(p, N_MAC, 'Machine.worker', M.stmt_calling("self.stats['out_edge_selection'].append"), "self.stats['out_edge_selection'].append(0)"))
fire('C15', 'machine-behaviour-no-in-record', 'C15.R2', 'Machine.behaviour',
     lambda p: M.delete_stmt(p, N_MAC, 'Machine.behaviour', M.stmt_calling("self.stats['in_edge_selection'].append")))
fire('C15', 'machine-fa-scan-reversed', 'C15.R4', 'Machine.worker',
     lambda p: M.replace_node(p, N_MAC, 'Machine.worker', lambda n: isinstance(n, ast.For) and 'can_put' in ast.unparse(n), sub('for edge in self.out_edges:', 'for edge in reversed(self.out_edges):')))
fire('C15', 'sink-fa-reserve-reversed', 'C15.R4', 'Sink.behaviour',
     lambda p: M.replace_node(p, N_SNK, 'Sink.behaviour', M.assign_to('self.in_edge_events'), 'self.in_edge_events = [edge.inbuiltstore.reserve_get() for edge in self.in_edges[::-1]]'))
silent('C15', 'roundrobin-commuted',
       lambda p: M.replace_node(p, U, 'RoundRobin_edge_selector', M.assign_to('i'), 'i = (1 + i) % len(edges)', which=1))
silent('C15', 'machine-assert-message-changed',
       lambda p: M.replace_node(p, N_MAC, 'Machine._get_out_edge_index', lambda n: isinstance(n, ast.Assert), 'assert 0 <= val < len(self.out_edges), "bad index"'))

# ============================================================================================ C16
fire('C16', 'combiner-pallet-from-last-edge', 'C16.R1', 'Combiner.behaviour',
     lambda p: M.replace_node(p, N_CMB, 'Combiner.behaviour', M.assign_to('self.pallet_in_process'), 'self.pallet_in_process = self.in_edges[-1].get(get_token)', which=0))
fire('C16', 'combiner-no-pallet-type-check', 'C16.R1', 'Combiner.behaviour',
     lambda p: M.replace_node(p, N_CMB, 'Combiner.behaviour', M.if_testing("flow_item_type != 'Pallet'"), 'pass'))
fire('C16', 'combiner-recipe-from-edge-zero', 'C16.R2', 'Combiner.behaviour',
     lambda p: M.replace_node(p, N_CMB, 'Combiner.behaviour', lambda n: isinstance(n, ast.For) and 'in_edges' in ast.unparse(n.iter), sub('range(1, len(self.in_edges))', 'range(0, len(self.in_edges))')))
fire('C16', 'combiner-recipe-one-too-many', 'C16.R2', 'Combiner.behaviour',
     lambda p: M.replace_node(p, N_CMB, 'Combiner.behaviour', lambda n: isinstance(n, ast.For) and ast.unparse(n.iter) == 'range(qty)', sub('range(qty)', 'range(qty + 1)')))
fire('C16', 'combiner-recipe-wrong-index', 'C16.R2', 'Combiner.behaviour',
     lambda p: M.replace_node(p, N_CMB, 'Combiner.behaviour', M.assign_to('qty'), 'qty = self.target_quantity_of_each_item[0]'))
fire('C16', 'combiner-reserve-on-edge-one', 'C16.R2', 'Combiner.behaviour',
     lambda p: M.replace_node(p, N_CMB, 'Combiner.behaviour', M.assign_to('edge'), 'edge = self.in_edges[1]'))
fire('C16', 'combiner-item-not-packed', 'C16.R3', 'Combiner.behaviour',
     lambda p: M.delete_stmt(p, N_CMB, 'Combiner.behaviour', M.stmt_calling('.add_item')))
fire('C16', 'combiner-get-from-wrong-edge', 'C16.R3', 'Combiner.behaviour',
     lambda p: M.replace_node(p, N_CMB, 'Combiner.behaviour', M.assign_to('edge_index'), 'edge_index = reservation_indx[0]'))
fire('C16', 'combiner-index-list-not-popped', 'C16.R3', 'Combiner.behaviour',
     lambda p: M.delete_stmt(p, N_CMB, 'Combiner.behaviour', M.stmt_calling('reservation_indx.pop')))
fire('C16', 'combiner-drain-stops-early', 'C16.R3', 'Combiner.behaviour',
     lambda p: M.replace_node(p, N_CMB, 'Combiner.behaviour', lambda n: isinstance(n, ast.While) and 'reservation_tokens' in ast.unparse(n.test),
                              sub('while len(reservation_tokens)>0:', 'while len(reservation_tokens)>1:')))
fire('C16', 'splitter-pallet-first', 'C16.R4', 'Splitter.worker',
     lambda p: M.replace_node(p, N_SPL, 'Splitter.worker', M.assign_to('item'), 'item = pallet', which=0))
fire('C16', 'splitter-pops-from-back', 'C16.R4', 'Splitter.worker',
     lambda p: M.replace_node(p, N_SPL, 'Splitter.worker', M.assign_to('item'), 'item = pallet.items.pop(-1)', which=0))
fire('C16', 'splitter-leaves-last-item', 'C16.R4', 'Splitter.worker',
     lambda p: M.replace_node(p, N_SPL, 'Splitter.worker', lambda n: isinstance(n, ast.While), sub('while len(pallet.items) > 0:', 'while len(pallet.items) > 1:')))
fire('C16', 'splitter-pallet-not-emitted', 'C16.R4', 'Splitter.worker',
     lambda p: M.replace_node(p, N_SPL, 'Splitter.worker', M.assign_to('y'), 'y = True', which=1))
silent('C16', 'combiner-recipe-inline',
       lambda p: M.replace_node(p, N_CMB, 'Combiner.behaviour', lambda n: isinstance(n, ast.For) and ast.unparse(n.iter) == 'range(qty)',
                                sub('range(qty)', 'range(self.target_quantity_of_each_item[edge_idx])')))

# ============================================================================================ C17
fire('C17', 'splitter-no-setup-stamp (defect D8 re-introduced)', 'C17.R3', 'Splitter.behaviour',
     lambda p: M.delete_stmt(p, N_SPL, 'Splitter.behaviour', M.stmt_calling('self.update_state', 'SETUP_STATE')))
fire('C17', 'combiner-no-setup-stamp (defect D8 re-introduced)', 'C17.R3', 'Combiner.behaviour',
     lambda p: M.delete_stmt(p, N_CMB, 'Combiner.behaviour', M.stmt_calling('self.update_state', 'SETUP_STATE')))
fire('C17', 'machine-setup-not-credited', 'C17.R3', 'Machine.behaviour',
     lambda p: M.delete_stmt(p, N_MAC, 'Machine.behaviour', M.assign_to("self.stats['total_time_spent_in_states']['SETUP_STATE']")))
fire('C17', 'source-first-stamp-after-wait', 'C17.R3', 'Source.behaviour',
     lambda p: M.delete_stmt(p, N_SRC, 'Source.behaviour', M.stmt_calling('self.update_state', 'self.state')))
fire('C17', 'node-update-state-credits-new-state', 'C17.R1', 'Node.update_state',
     lambda p: M.chain(p, lambda q: M.delete_stmt(q, 'nodes/node.py', 'Node.update_state', M.assign_to('self.state')),
                       lambda q: M.insert_before(q, 'nodes/node.py', 'Node.update_state', lambda n: isinstance(n, ast.If), 'self.state = new_state')))
fire('C17', 'source-update-state-no-stamp', 'C17.R1', 'Source.update_state',
     lambda p: M.delete_stmt(p, N_SRC, 'Source.update_state', M.assign_to("self.stats['last_state_change_time']")))
fire('C17', 'splitter-update-state-overwrites-bucket', 'C17.R1', 'Splitter.update_state',
     lambda p: M.replace_node(p, N_SPL, 'Splitter.update_state', M.assign_to("self.stats['total_time_spent_in_states'][self.state]"),
                              "self.stats['total_time_spent_in_states'][self.state] = elapsed"))
fire('C17', 'source-writes-state-directly', 'C17.R2', 'Source.behaviour',
     lambda p: M.replace_node(p, N_SRC, 'Source.behaviour', M.stmt_calling('self.update_state', 'GENERATING_STATE'), 'self.state = "GENERATING_STATE"', which=0))
fire('C17', 'machine-group1-overlap', 'C17.R4', 'group-1',
     lambda p: M.replace_node(p, N_MAC, 'Machine.update_state_rep', M.if_testing('previous_state_rep[1] > 0 and previous_state_rep[0] == 0'),
                              sub('previous_state_rep[1] > 0 and previous_state_rep[0] == 0', 'previous_state_rep[1] > 0')))
fire('C17', 'machine-group2-gap', 'C17.R4', 'group-2',
     lambda p: M.replace_node(p, N_MAC, 'Machine.update_state_rep', lambda n: isinstance(n, ast.If) and ast.unparse(n.test).replace(' ', '') == 'previous_state_rep[1]>0',
                              sub('previous_state_rep[1] > 0', 'previous_state_rep[1] > 1')))
fire('C17', 'machine-bucket-double-credit', 'C17.R4', 'partition',
     lambda p: M.replace_node(p, N_MAC, 'Machine.update_state_rep', M.assign_to("self.stats['total_time_spent_in_states']['IDLE_STATE']"),
                              "self.stats['total_time_spent_in_states']['IDLE_STATE'] += 2 * elapsed"))
fire('C17', 'sink-final-credited-twice', 'C17.R5', 'Sink.update_final_state_time',
     lambda p: M.insert_after(p, N_SNK, 'Sink.update_final_state_time', M.assign_to("self.stats['total_time_spent_in_states'][self.state]"),
                              "self.stats['total_time_spent_in_states'][self.state] += duration"))
fire('C17', 'source-final-from-zero', 'C17.R5', 'Source.update_final_state_time',
     lambda p: M.replace_node(p, N_SRC, 'Source.update_final_state_time', M.assign_to('duration'), 'duration = simulation_end_time', which=1))
fire('C17', 'machine-occupancy-change-before-credit', 'C17.R6', 'Machine._update_worker_occupancy',
     lambda p: M.chain(p, lambda q: M.delete_stmt(q, N_MAC, 'Machine._update_worker_occupancy', M.assign_to('self.num_workers'), which=0),
                       lambda q: M.insert_before(q, N_MAC, 'Machine._update_worker_occupancy', M.assign_to('self.time_per_work_occupancy[self.num_workers]'), 'self.num_workers += 1', which=0)))
silent('C17', 'machine-group-guard-reordered',
       lambda p: M.replace_node(p, N_MAC, 'Machine.update_state_rep', M.if_testing('previous_state_rep[1] > 0 and previous_state_rep[0] == 0'),
                                sub('previous_state_rep[1] > 0 and previous_state_rep[0] == 0', 'previous_state_rep[0] == 0 and previous_state_rep[1] > 0')))
silent('C17', 'source-update-state-augmented',
       lambda p: M.replace_node(p, N_SRC, 'Source.update_state', M.assign_to("self.stats['total_time_spent_in_states'][self.state]"),
                                "self.stats['total_time_spent_in_states'][self.state] += elapsed"))

# ============================================================================================ C14
fire('C14', 'fleet-no-capacity-trigger', 'C14.R1', 'FleetStore._do_put',
     lambda p: M.replace_node(p, S_FLT, 'FleetStore._do_put', M.if_testing('== self.capacity'), 'pass'))
fire('C14', 'fleet-trigger-one-early', 'C14.R1', 'FleetStore._do_put',
     lambda p: M.replace_node(p, S_FLT, 'FleetStore._do_put', M.if_testing('== self.capacity'), sub('== self.capacity', '== self.capacity - 1')))
fire('C14', 'fleet-trigger-tested-before-append', 'C14.R1', 'FleetStore._do_put',
     lambda p: M.chain(p, lambda q: M.delete_stmt(q, S_FLT, 'FleetStore._do_put', M.stmt_calling('self.items.append')),
                       lambda q: M.insert_after(q, S_FLT, 'FleetStore._do_put', M.if_testing('== self.capacity'), 'self.items.append(item)\nself._update_time_averaged_level()')))
fire('C14', 'fleet-activation-ignores-capacity-event', 'C14.R2', 'fleet_activation_process',
     lambda p: M.replace_node(p, S_FLT, 'FleetStore.fleet_activation_process', M.assign_to('event_list'), 'event_list = [timeout_event]'))
fire('C14', 'fleet-activation-waits-transit-delay', 'C14.R2', 'fleet_activation_process',
     lambda p: M.replace_node(p, S_FLT, 'FleetStore.fleet_activation_process', M.assign_to('timeout_event'), 'timeout_event = self.env.timeout(self.transit_delay)'))
fire('C14', 'fleet-departs-empty', 'C14.R2', 'fleet_activation_process',
     lambda p: M.replace_node(p, S_FLT, 'FleetStore.fleet_activation_process', lambda n: isinstance(n, ast.If) and ast.unparse(n.test) == 'self.items', sub('if self.items:', 'if True:')))
fire('C14', 'fleet-one-way-trip', 'C14.R3', 'move_to_ready_items',
     lambda p: M.delete_stmt(p, S_FLT, 'FleetStore.move_to_ready_items', lambda n: isinstance(n, ast.Expr) and isinstance(n.value, ast.Yield), which=1))
fire('C14', 'fleet-trip-uses-delay', 'C14.R3', 'move_to_ready_items',
     lambda p: M.replace_node(p, S_FLT, 'FleetStore.move_to_ready_items', M.is_call('self.env.timeout'), 'self.env.timeout(self.delay)', which=0))
fire('C14', 'fleet-items-trickle', 'C14.R3', 'move_to_ready_items',
     lambda p: M.insert_after(p, S_FLT, 'FleetStore.move_to_ready_items', M.stmt_calling('self._trigger_reserve_put'), 'yield self.env.timeout(0)'))
silent('C14', 'fleet-batch-snapshot (repairs D4: the known finding must disappear, nothing new may appear)',
       lambda p: M.replace_node(p, S_FLT, 'FleetStore.fleet_activation_process', M.is_call('self.move_to_ready_items'), 'self.move_to_ready_items(list(self.items))'))
silent('C14', 'fleet-trigger-ge',
       lambda p: M.replace_node(p, S_FLT, 'FleetStore._do_put', M.if_testing('== self.capacity'), sub('== self.capacity', '>= self.capacity')))

# ============================================================================================ C19
fire('C19', 'belt-interrupts-in-set-order', 'C19.R1', 'belt_store.py',
     lambda p: M.replace_node(p, S_BELT, 'BeltStore.interrupt_and_resume_all_delayed_interrupt_processes', lambda n: isinstance(n, ast.For),
                              sub('in list(self.active_delayed_interrupt_processes.items())', 'in set(self.active_delayed_interrupt_processes.items())')))
fire('C19', 'machine-workers-kept-in-a-set', 'C19.R1', 'machine.py',
     lambda p: M.chain(p, lambda q: M.replace_node(q, N_MAC, 'Machine.__init__', M.assign_to('self.worker_thread_list'), 'self.worker_thread_list = set()'),
                       lambda q: M.replace_node(q, N_MAC, 'Machine.behaviour', M.stmt_calling('self.worker_thread_list.append'), 'self.worker_thread_list.add(proc)')))
fire('C19', 'prs-queue-tie-break-by-id', 'C19.R2', 'reservable_priority_req_store.py',
     lambda p: M.replace_node(p, S_PRS, 'ReservablePriorityReqStore.reserve_put', M.is_call('self.reserve_put_queue.sort'),
                              'self.reserve_put_queue.sort(key=lambda e: (e.priority_to_put, id(e)))'))
fire('C19', 'source-compares-hashes', 'C19.R2', 'source.py',
     lambda p: M.insert_before(p, N_SRC, 'Source.behaviour', M.assign_to("self.stats['num_item_generated']"), 'if hash(item) < 0:\n    pass'))
fire('C19', 'utils-private-generator', 'C19.R3', 'utils.py',
     lambda p: M.replace_node(p, U, 'Random_edge_selector', M.is_call('random.randint'), 'random.SystemRandom().randint(0, len(edges) - 1)'))
fire('C19', 'belt-numpy-random-jitter', 'C19.R3', 'belt_store.py',
     lambda p: M.replace_node(p, S_BELT, 'BeltStore.move_to_ready_items', M.assign_to('phase1_time'), 'phase1_time = item[0].length / self.speed + 0 * np.random.rand()'))
fire('C19', 'sink-wall-clock-cycle-time', 'C19.R4', 'sink.py',
     lambda p: M.chain(p, lambda q: {N_SNK: 'import time\n' + q.modules[N_SNK].src},
                       lambda q: M.insert_after(q, N_SNK, 'Sink.behaviour', M.assign_to("self.stats['num_item_received']"), 'self.buffertime = time.time()')))
fire('C19', 'fleet-rewinds-clock', 'C19.R5', 'fleet_store.py',
     lambda p: M.insert_after(p, S_FLT, 'FleetStore._do_put', M.stmt_calling('self.items.append'), 'self.env._now = self.env._now'))
silent('C19', 'belt-uses-numpy-round',
       lambda p: M.replace_node(p, S_BELT, 'BeltStore.move_to_ready_items', M.assign_to('phase1_time'), 'phase1_time = float(np.round(item[0].length / self.speed, 12))'))
silent('C19', 'machine-iterates-worker-list',
       lambda p: M.insert_before(p, N_MAC, 'Machine.update_final_state_time', lambda n: isinstance(n, ast.For), 'for w in list(self.worker_thread_list):\n    pass'))

# ============================================================================================ C20
fire('C20', 'buffer-reads-missing-attribute', 'C20.R1', 'Buffer.can_get',
     lambda p: M.replace_node(p, E_BUF, 'Buffer.can_get', lambda n: isinstance(n, ast.If), 'if not self.out_buf:\n    return False'))
fire('C20', 'machine-reads-misspelt-attribute', 'C20.R1', 'Machine.worker',
     lambda p: M.replace_node(p, N_MAC, 'Machine.worker', M.stmt_calling('self._update_avg_time_spent_in_processing'),
                              'self._update_avg_time_spent_in_processing(self.env.now - self.processing_start)'))
fire('C20', 'machine-unguarded-edge-attribute', 'C20.R1', 'Machine.behaviour',
     lambda p: M.replace_node(p, N_MAC, 'Machine.behaviour', M.assign_to('self.in_edge_events'), 'self.in_edge_events = [edge.inbuiltstore.reserve_get() for edge in self.in_edges]'))
fire('C20', 'fleet-drops-can-put', 'C20.R2', 'Fleet.can_put',
     lambda p: {E_FLT: p.modules[E_FLT].src.replace('    def can_put(self):', '    def can_put_disabled(self):', 1)})
fire('C20', 'machine-push-rejects-fleet', 'C20.R2', 'Machine._push_item',
     lambda p: M.replace_node(p, N_MAC, 'Machine._push_item', lambda n: isinstance(n, ast.If) and '__class__' in ast.unparse(n.test), sub('"Buffer", "Fleet", "ConveyorBelt"', '"Buffer", "ConveyorBelt"')))
fire('C20', 'buffer-behaviour-plain-loop-spawned', 'C20.R3', 'Buffer.__init__',
     lambda p: M.insert_after(p, E_BUF, 'Buffer.__init__', M.assign_to('self.inbuiltstore'), 'self.behavior = self.env.process(self.behaviour())'))
fire('C20', 'sink-loop-iteration-without-yield', 'C20.R3', 'Sink.behaviour',
     lambda p: M.insert_after(p, N_SNK, 'Sink.behaviour', M.stmt_calling('self.update_state'), 'if not self.in_edges[0].can_get():\n    continue'))
fire('C20', 'fleet-activation-busy-loop', 'C20.R3', 'fleet_activation_process',
     lambda p: M.replace_node(p, S_FLT, 'FleetStore.fleet_activation_process', lambda n: isinstance(n, ast.Expr) and isinstance(n.value, ast.Yield),
                              'if self.items:\n    yield self.env.any_of(event_list)'))
fire('C20', 'belt-pattern-endless-shift', 'C20.R3', '_get_belt_pattern',
     lambda p: M.replace_node(p, S_BELT, 'BeltStore._get_belt_pattern', M.if_testing('pos < 0'), 'pass', which=0))
fire('C20', 'edge-capacity-check-removed', 'C20.R4', 'validates:capacity',
     lambda p: M.replace_node(p, 'edges/edge.py', 'Edge.__init__', M.if_testing('self.capacity <= 0'), 'pass'))
fire('C20', 'buffer-mode-check-removed', 'C20.R4', 'validates:mode',
     lambda p: M.replace_node(p, E_BUF, 'Buffer.__init__', M.if_testing('self.mode not in'), 'pass'))
fire('C20', 'source-zero-interarrival-accepted', 'C20.R4', 'nonblocking-zero-interarrival',
     lambda p: M.replace_node(p, N_SRC, 'Source.__init__', M.if_testing('inter_arrival_time == 0'), sub('inter_arrival_time == 0 and not self.blocking', 'False')))
fire('C20', 'node-delay-sign-unchecked', 'C20.R4', 'Node.get_delay',
     lambda p: M.delete_stmt(p, 'nodes/node.py', 'Node.get_delay', lambda n: isinstance(n, ast.Assert)))
fire('C20', 'machine-edges-not-required', 'C20.R4', 'has-out_edges',
     lambda p: M.delete_stmt(p, N_MAC, 'Machine.behaviour', lambda n: isinstance(n, ast.Assert) and 'out_edges' in ast.unparse(n.test)))
fire('C20', 'splitter-constant-index-unchecked', 'C20.R4', 'constant-in-index',
     lambda p: M.replace_node(p, N_SPL, 'Splitter.reset', lambda n: isinstance(n, ast.Assert) and 'in_edge_selection' in ast.unparse(n.test), 'pass'))
fire('C20', 'conveyor-get-event-double-fire', 'C20.R5', 'ConveyorBelt.get',
     lambda p: M.insert_after(p, E_CC, 'ConveyorBelt.get', M.stmt_calling('self.get_events_available.succeed'), 'self.ready_pulse = self.env.event()\nself.ready_pulse.succeed()\nself.ready_pulse.succeed()'),
     accept_analysis_error=False)
fire('C20', 'machine-yields-put-result', 'C20.R6', 'Machine.worker',
     lambda p: M.replace_node(p, N_MAC, 'Machine.worker', M.assign_to('y'), 'y = yield outedge_to_put.put(put_event, item)'))
fire('C20', 'machine-first-iteration-none-deref', 'C20.R7', 'Machine.behaviour',
     lambda p: M.insert_after(p, N_MAC, 'Machine.behaviour', M.stmt_calling('self._update_worker_occupancy'), 'print(self.item_in_process.id)'))
silent('C20', 'sink-edge-attribute-guarded',
       lambda p: M.replace_node(p, N_SNK, 'Sink.behaviour', M.assign_to('self.in_edge_events'),
                                'self.in_edge_events = [edge.inbuiltstore.reserve_get() for edge in self.in_edges]  # unchanged'))
silent('C20', 'machine-new-helper-attribute',
       lambda p: M.chain(p, lambda q: M.insert_after(q, N_MAC, 'Machine.__init__', M.assign_to('self.blocking'), 'self.extra_counter = 0'),
                         lambda q: M.insert_after(q, N_MAC, 'Machine.worker', M.stmt_calling('self._update_avg_time_spent_in_processing'), 'self.extra_counter += 1')))

# ============================================================================================ C13
fire('C13', 'continuous-arrival-event-never-fired', 'C13.R1', 'continuous_conveyor.py::ConveyorBelt.behaviour',
     lambda p: M.delete_stmt(p, E_CC, 'ConveyorBelt.put', M.stmt_calling('self.item_arrival_event.succeed')))
fire('C13', 'belt-ready-event-never-fired', 'C13.R1', 'ready_item_event',
     lambda p: M.replace_node(p, S_BELT, 'BeltStore.move_to_ready_items', M.if_testing('self.ready_item_event.triggered'), 'pass'))
fire('C13', 'belt-resume-never-fired', 'C13.R', 'BeltStore',
     lambda p: M.delete_stmt(p, S_BELT, 'BeltStore.resume_all_move_processes', M.stmt_calling('old_resume_event.succeed')))
fire('C13', 'belt-handler-forgets-elapsed', 'C13.R2', 'interrupted-travel-wait',
     lambda p: M.delete_stmt(p, S_BELT, 'BeltStore.move_to_ready_items', M.assign_to('remaining_phase2_time'), which=2))
fire('C13', 'slot-handler-no-resume-wait', 'C13.R2', 'interrupted-travel-wait',
     lambda p: M.delete_stmt(p, S_SLOT, 'BeltStore.move_to_ready_items', lambda n: isinstance(n, ast.Expr) and isinstance(n.value, ast.Yield) and 'resume_event' in ast.unparse(n), which=0))
fire('C13', 'belt-resume-fires-before-fresh-event', 'C13.R2', 'resume_all_move_processes',
     lambda p: M.chain(p, lambda q: M.delete_stmt(q, S_BELT, 'BeltStore.resume_all_move_processes', M.assign_to('self.resume_event')),
                       lambda q: M.insert_after(q, S_BELT, 'BeltStore.resume_all_move_processes', M.stmt_calling('old_resume_event.succeed'), 'self.resume_event = self.env.event()')))
fire('C13', 'continuous-stall-does-not-interrupt', 'C13.R3', 'continuous_conveyor.py::ConveyorBelt.set_conveyor_state',
     lambda p: M.delete_stmt(p, E_CC, 'ConveyorBelt.set_conveyor_state', M.stmt_calling('self.belt.selective_interrupt')))
fire('C13', 'slotted-release-does-not-resume', 'C13.R3', 'slotted_conveyor.py::ConveyorBelt.set_conveyor_state',
     lambda p: M.delete_stmt(p, E_SC, 'ConveyorBelt.set_conveyor_state', M.stmt_calling('self.belt.resume_all_move_processes')))
fire('C13', 'continuous-behaviour-writes-state', 'C13.R3', 'state-single-writer',
     lambda p: M.replace_node(p, E_CC, 'ConveyorBelt.behaviour', M.stmt_calling('self.set_conveyor_state', 'MOVING_STATE'), 'self.state = "MOVING_STATE"'))
fire('C13', 'slotted-stalled-branch-sets-moving', 'C13.R3', 'covers-empty-moving-stalled',
     lambda p: M.replace_node(p, E_SC, 'ConveyorBelt.behaviour', M.stmt_calling('self.set_conveyor_state', 'STALLED_NONACCUMULATING_STATE'), 'self.set_conveyor_state("MOVING_STATE")'))
fire('C13', 'belt-gate-removed', 'C13.R4', 'BeltStore._do_reserve_put',
     lambda p: M.replace_node(p, S_BELT, 'BeltStore._do_reserve_put', M.if_testing('self.accumulation_mode_indicator'),
                              lambda s: 'if True:' + s[s.index(':', s.index('len(self.ready_items)==0) :') if 'len(self.ready_items)==0) :' in s else s.index(':')) + 1:]))
fire('C13', 'machine-interrupts-belt-process', 'C13.R5', 'Machine.worker',
     lambda p: M.insert_after(p, N_MAC, 'Machine.worker', M.stmt_calling('self._update_avg_time_spent_in_processing'), 'self.env.active_process.interrupt("x")'))
fire('C13', 'slot-handler-elapsed-read-after-resume', 'C13.R2', 'interrupted-travel-wait',
     lambda p: M.chain(p, lambda q: M.delete_stmt(q, S_SLOT, 'BeltStore.move_to_ready_items', M.assign_to('remaining_phase1_time'), which=2),
                       lambda q: M.insert_after(q, S_SLOT, 'BeltStore.move_to_ready_items',
                                                lambda n: isinstance(n, ast.Expr) and isinstance(n.value, ast.Yield) and 'resume_event' in ast.unparse(n),
                                                'remaining_phase1_time -= self.env.now - start_time', which=0)))
silent('C13', 'slot-handler-locals-renamed',
       lambda p: M.chain(p, lambda q: M.replace_node(q, S_SLOT, 'BeltStore.move_to_ready_items', M.assign_to('elapsed_time'), 'gone = self.env.now - start_time', which=0),
                         lambda q: M.replace_node(q, S_SLOT, 'BeltStore.move_to_ready_items',
                                                  lambda n: isinstance(n, ast.AugAssign) and ast.unparse(n.target) == 'remaining_phase1_time', 'remaining_phase1_time = remaining_phase1_time - gone', which=0)))
silent('C13', 'belt-handler-extra-logging',
       lambda p: M.insert_before(p, S_BELT, 'BeltStore.move_to_ready_items', M.assign_to('remaining_phase1_time'), 'print("interrupted")', which=2))

# behaviour-preserving rewrites added after review of likely false alarms
silent('C04', 'buffer-get-trigger-only-when-someone-waits',
       lambda p: M.replace_node(p, S_BUF, 'BufferStore.get', M.stmt_calling('self._trigger_reserve_put'),
                                'if self.reserve_put_queue:\n    self._trigger_reserve_put(None)'))
silent('C04', 'fleet-ready-trigger-only-when-someone-waits',
       lambda p: M.replace_node(p, S_FLT, 'FleetStore.move_to_ready_items', M.stmt_calling('self._trigger_reserve_get'),
                                'if len(self.reserve_get_queue) > 0:\n    self._trigger_reserve_get(None)'))
fire('C04', 'buffer-get-trigger-only-when-nobody-waits', 'C04.R1', 'BufferStore',
     lambda p: M.replace_node(p, S_BUF, 'BufferStore.get', M.stmt_calling('self._trigger_reserve_put'),
                              'if not self.reserve_put_queue:\n    self._trigger_reserve_put(None)'))
fire('C01', 'bufferstore-base-capacity-plus-one', 'C01.O6', 'BufferStore.__init__',
     lambda p: M.replace_node(p, S_BUF, 'BufferStore.__init__', M.is_call('.__init__'), 'super().__init__(env, capacity + 1)'))
fire('C20', 'continuous-get-event-not-rearmed', 'C20.R8', 're-arms(self.get_events_available)',
     lambda p: M.delete_stmt(p, E_CC, 'ConveyorBelt.behaviour', M.assign_to('self.get_events_available')))
fire('C20', 'continuous-ready-event-not-rearmed', 'C20.R8', 're-arms(self.belt.ready_item_event)',
     lambda p: M.delete_stmt(p, E_CC, 'ConveyorBelt.behaviour', M.assign_to('self.belt.ready_item_event')))
fire('C20', 'slotted-arrival-event-not-rearmed', 'C20.R8', 're-arms(self.item_arrival_event)',
     lambda p: M.delete_stmt(p, E_SC, 'ConveyorBelt.behaviour', M.assign_to('self.item_arrival_event')))
fire('C20', 'fleet-activation-event-not-rearmed', 'C20.R8', 're-arms(self.activate_fleet)',
     lambda p: M.delete_stmt(p, S_FLT, 'FleetStore.fleet_activation_process', M.assign_to('self.activate_fleet')))
silent('C05', 'prs-explicit-tiebreak-by-clock',
       lambda p: M.chain(p, lambda q: M.insert_before(q, S_PRS, 'ReservablePriorityReqStore.reserve_put', M.stmt_calling('self.reserve_put_queue.append'), 'event.arrival_time = self.env.now'),
                         lambda q: M.replace_node(q, S_PRS, 'ReservablePriorityReqStore.reserve_put', M.is_call('self.reserve_put_queue.sort'),
                                                  'self.reserve_put_queue.sort(key=lambda e: (e.priority_to_put, e.arrival_time))')))
fire('C05', 'prs-tiebreak-by-queue-length (seed C05-a)', 'C05.R1', 'ReservablePriorityReqStore.reserve_get',
     lambda p: M.chain(p, lambda q: M.insert_before(q, S_PRS, 'ReservablePriorityReqStore.reserve_get', M.stmt_calling('self.reserve_get_queue.append'), 'event.arrival_order = len(self.reserve_get_queue)'),
                       lambda q: M.replace_node(q, S_PRS, 'ReservablePriorityReqStore.reserve_get', M.is_call('self.reserve_get_queue.sort'),
                                                'self.reserve_get_queue.sort(key=lambda e: (e.priority_to_get, e.arrival_order))')))
silent('C05', 'buffer-cancel-hands-over-head (seed C01-a: breaks C01, not the service order)',
       lambda p: M.insert_before(p, S_BUF, 'BufferStore.reserve_put_cancel', lambda n: isinstance(n, ast.Return), 'if False:\n    self.reserve_put_queue.pop(0)'))
fire('C03', 'pallet-shared-default-list (seed C03-a)', 'C03.R5', 'Pallet.__init__',
     lambda p: {'helper/pallet.py': p.modules['helper/pallet.py'].src.replace('def __init__(self, id):', 'def __init__(self, id, items=[]):').replace('self.items = []', 'self.items = items')})
fire('C03', 'pallet-class-level-list', 'C03.R5', 'Pallet',
     lambda p: {'helper/pallet.py': p.modules['helper/pallet.py'].src.replace('        self.items = []  # List to hold contained items\n', '').replace(
         '    """A class representing a pallet, which can hold multiple items."""\n', '    """A class representing a pallet, which can hold multiple items."""\n    items = []\n', 1)})
silent('C03', 'pallet-default-none-then-fresh',
       lambda p: {'helper/pallet.py': p.modules['helper/pallet.py'].src.replace('def __init__(self, id):', 'def __init__(self, id, items=None):').replace(
           'self.items = []', 'self.items = list(items) if items is not None else []')})

# ============================================================================================ C12
fire('C12', 'slotted-spacing-gate-removed', 'C12.R1', 'spacing-gate[non-empty belt]',
     lambda p: M.replace_node(p, S_SLOT, 'BeltStore._do_reserve_put', M.if_testing('conveyor_entry_time'), lambda s: 'if True:' + s[s.index(':', s.index('self.delay')) + 1:]))
fire('C12', 'slotted-spacing-against-first-item', 'C12.R1', 'spacing-gate[non-empty belt]',
     lambda p: M.replace_node(p, S_SLOT, 'BeltStore._do_reserve_put', M.if_testing('conveyor_entry_time'), sub('self.items[-1][0]', 'self.items[0][0]')))
fire('C12', 'continuous-spacing-against-first-item', 'C12.R1', 'spacing-gate[non-empty belt]',
     lambda p: M.replace_node(p, S_BELT, 'BeltStore._do_reserve_put', M.if_testing('np.abs(time_on_belt'), sub('self.items[-1][0].length', 'self.items[0][0].length')))
fire('C12', 'continuous-delay-without-capacity', 'C12.R2', 'continuous_conveyor.py::ConveyorBelt.put',
     lambda p: M.replace_node(p, E_CC, 'ConveyorBelt.put', M.assign_to('delay'), 'delay = self.length / self.speed'))
fire('C12', 'slotted-delay-one-slot-short', 'C12.R2', 'slotted_conveyor.py::ConveyorBelt.put',
     lambda p: M.replace_node(p, E_SC, 'ConveyorBelt.put', M.assign_to('delay'), 'delay = (self.capacity - 1) * self.delay'))
fire('C12', 'slotted-entry-stamp-missing', 'C12.R2', 'slotted_conveyor.py::ConveyorBelt.put',
     lambda p: M.delete_stmt(p, E_SC, 'ConveyorBelt.put', M.assign_to('item.conveyor_entry_time')))
fire('C12', 'belt-phase2-not-reduced-by-phase1', 'C12.R2', 'two-phase-travel',
     lambda p: M.replace_node(p, S_BELT, 'BeltStore.move_to_ready_items', M.assign_to('phase2_time'), 'phase2_time = item[1]'))
fire('C12', 'slot-phase2-skipped', 'C12.R2', 'two-phase-travel',
     lambda p: M.replace_node(p, S_SLOT, 'BeltStore.move_to_ready_items', M.assign_to('remaining_phase2_time'), 'remaining_phase2_time = 0', which=0))
fire('C12', 'continuous-delay-per-item-length', 'C12.R', 'continuous_conveyor.py::ConveyorBelt.put',
     lambda p: M.replace_node(p, E_CC, 'ConveyorBelt.put', M.assign_to('delay'), 'delay = item.length * self.capacity / self.speed'))
silent('C12', 'continuous-delay-commuted',
       lambda p: M.replace_node(p, E_CC, 'ConveyorBelt.put', M.assign_to('delay'), 'delay = self.capacity * self.length / self.speed'))
silent('C11', 'buffer-can-put-via-occupancy-helper',
       lambda p: M.replace_node(p, E_BUF, 'Buffer.can_put', lambda n: isinstance(n, ast.Return) and 'reservations_put' in ast.unparse(n),
                                'return self.capacity - self.occupancy() > len(self.inbuiltstore.reservations_put)'))
fire('C11', 'buffer-can-put-ge-via-helper (seed C09-a)', 'C11.R1', 'Buffer.can_put',
     lambda p: M.replace_node(p, E_BUF, 'Buffer.can_put', lambda n: isinstance(n, ast.Return) and 'reservations_put' in ast.unparse(n),
                              'return self.capacity - self.occupancy() >= len(self.inbuiltstore.reservations_put)'))
fire('C13', 'continuous-release-cancels-only-when-accumulating (seed C13-a)', 'C13.R6', 'continuous_conveyor.py::ConveyorBelt.set_conveyor_state',
     lambda p: M.replace_node(p, E_CC, 'ConveyorBelt.set_conveyor_state', M.stmt_calling('self.belt.interrupt_and_resume_all_delayed_interrupt_processes'),
                              'if self.accumulating:\n    self.belt.interrupt_and_resume_all_delayed_interrupt_processes()'))
fire('C13', 'continuous-delayed-interrupt-untracked', 'C13.R6', 'belt_store.py::BeltStore.handle_new_item_during_interruption',
     lambda p: M.delete_stmt(p, S_BELT, 'BeltStore.handle_new_item_during_interruption', M.assign_to('self.active_delayed_interrupt_processes[item_id]')))
silent('C07', 'prs-put-validates-by-membership-and-owner',
       lambda p: M.chain(p,
                         lambda q: M.replace_node(q, S_PRS, 'ReservablePriorityReqStore._do_put', M.assign_to('reserved_event'),
                                                  'reserved_event = put_event if (put_event in self.reservations_put and put_event.requesting_process == self.env.active_process) else None')))
fire('C07', 'prs-put-removes-before-owner-check (seed C07-a)', 'C07.R3', 'ReservablePriorityReqStore.put',
     lambda p: M.replace_node(p, S_PRS, 'ReservablePriorityReqStore._do_put', M.assign_to('reserved_event'),
                              'self.reservations_put.remove(put_event) if put_event in self.reservations_put else None\nreserved_event = put_event if put_event.requesting_process == self.env.active_process else None'))

# ============================================================================================ all properties
def _reformat_all(p):
    """every module re-printed by ast.unparse: comments dropped, line numbers and layout changed, semantics identical"""
    return {rel: ast.unparse(m.tree) + '\n' for rel, m in p.modules.items()}


for _prop in ('C01', 'C02', 'C03', 'C04', 'C05', 'C06', 'C07', 'C08', 'C09', 'C10', 'C11', 'C12', 'C13', 'C14', 'C15', 'C16', 'C17', 'C18', 'C19', 'C20'):
    silent(_prop, 'whole-package-reformat (ast round trip: no comments, new line numbers)', _reformat_all)
fire('C20', 'fleet-rearm-only-with-items (defect D20 re-introduced)', 'C20.R8', 're-arms(self.activate_fleet)',
     lambda p: M.chain(p, lambda q: M.delete_stmt(q, S_FLT, 'FleetStore.fleet_activation_process', M.if_testing('self.activate_fleet.triggered')),
                       lambda q: M.insert_after(q, S_FLT, 'FleetStore.fleet_activation_process', M.stmt_calling('self.env.process'),
                                                'if self.activate_fleet.triggered:\n    self.activate_fleet = self.env.event()')))
fire('C20', 'continuous-put-event-rearmed-as-get', 'C20.R8', 're-arms(self.put_events_available)',
     lambda p: M.replace_node(p, E_CC, 'ConveyorBelt.behaviour', M.assign_to('self.put_events_available'), 'self.get_events_available = self.env.event()'))
fire('C17', 'machine-worker-blocked-mark-after-refresh (seed C17-a)', 'C17.R7', 'Machine.worker',
     lambda p: M.chain(p, lambda q: M.delete_stmt(q, N_MAC, 'Machine.worker', M.assign_to('self.env.active_process.thread_state'), which=2),
                       lambda q: M.insert_after(q, N_MAC, 'Machine.worker', M.stmt_calling('self.update_state_rep'), 'self.env.active_process.thread_state = "BLOCKED_STATE"', which=5)))
fire('C17', 'splitter-worker-blocked-mark-not-refreshed', 'C17.R7', 'Splitter.worker',
     lambda p: M.delete_stmt(p, N_SPL, 'Splitter.worker', M.stmt_calling('self.check_thread_state_and_update_splitter_state'), which=2))
fire('C17', 'machine-behaviour-new-worker-not-counted', 'C17.R7', 'Machine.behaviour',
     lambda p: M.delete_stmt(p, N_MAC, 'Machine.behaviour', M.stmt_calling('self.update_state_rep'), which=2))
fire('C13', 'belt-plan-delay-without-speed (seed C12-a)', 'C13.R7', 'BeltStore._execute_interruption_plan',
     lambda p: M.replace_node(p, S_BELT, 'BeltStore._execute_interruption_plan', M.assign_to('delay'), 'delay = delay * item_length', which=1))
fire('C13', 'belt-new-item-delay-times-speed', 'C13.R7', 'BeltStore.handle_new_item_during_interruption',
     lambda p: M.replace_node(p, S_BELT, 'BeltStore.handle_new_item_during_interruption', M.assign_to('delay_for_new_item'), 'delay_for_new_item = delay_for_new_item * (item_length * self.speed)', which=1))
silent('C13', 'belt-plan-delay-factor-commuted',
       lambda p: M.replace_node(p, S_BELT, 'BeltStore._execute_interruption_plan', M.assign_to('delay'), 'delay = (item_length / self.speed) * delay', which=1))


# ============================================================================================ refactoring fixtures
# Behaviour-preserving refactorings of whole modules written by independent agents (extract helper, queue / grant function passed as
# arguments, loop over the holder lists, guard clauses, local aliases, module constants, sub-generators, reflection by constant name ...).
# Each was shown equivalent by an event-trace fingerprint (equiv_demo.py next to the files).  No rule may report anything new on them.
import pathlib as _pl
_FIX = _pl.Path(__file__).resolve().parent.parent.parent / 'fixtures' / 'refactors'


def _fixture(name):
    def build(p):
        out = {}
        for f in sorted((_FIX / name).rglob('*.py')):
            if f.name == 'equiv_demo.py':
                continue
            out[str(f.relative_to(_FIX / name))] = f.read_text()
        if not out:
            raise M.Stale(f'fixture {name} missing')
        return out
    return build


for _fx in sorted(d.name for d in _FIX.iterdir() if d.is_dir()) if _FIX.is_dir() else []:
    for _prop in ('C01', 'C02', 'C03', 'C04', 'C05', 'C06', 'C07', 'C08', 'C09', 'C10', 'C11', 'C12', 'C13', 'C14', 'C15', 'C16', 'C17', 'C18', 'C19', 'C20'):
        silent(_prop, f'refactoring fixture {_fx} (whole-module behaviour-preserving rewrite)', _fixture(_fx))


# ============================================================================================ round-2 seeds as variants
fire('C04', 'prs-get-wakeup-guarded-by-item-truthiness (seed C04-b)', 'C04.R1', 'ReservablePriorityReqStore',
     lambda p: M.replace_node(p, S_PRS, 'ReservablePriorityReqStore.get', lambda n: isinstance(n, ast.Compare) and ast.unparse(n) == 'item is not None', 'item', which=0))
fire('C04', 'buffer-get-wakeup-guarded-by-item-truthiness', 'C04.R1', 'BufferStore',
     lambda p: M.replace_node(p, S_BUF, 'BufferStore.get', lambda n: isinstance(n, ast.Compare) and ast.unparse(n) == 'item is not None', 'item', which=0))
fire('C07', 'buffer-get-owner-check-vacuous (seed C07-b)', 'C07.R', 'BufferStore',
     lambda p: M.replace_node(p, S_BUF, 'BufferStore._do_get', lambda n: isinstance(n, ast.Attribute) and ast.unparse(n) == 'self.env.active_process',
                              'get_event.requesting_process', which=0))
fire('C01', 'fleet-admission-counts-get-reservations (seed C01-b)', 'C01.O', 'FleetStore',
     lambda p: M.replace_node(p, S_FLT, 'FleetStore._do_reserve_put', lambda n: isinstance(n, ast.Attribute) and ast.unparse(n) == 'self.reservations_put' and isinstance(n.ctx, ast.Load),
                              'self.reservations_get', which=0))
fire('C02', 'fleet-get-removes-head-not-bound-item (seed C02-b)', 'C02.R', 'FleetStore',
     lambda p: M.replace_node(p, S_FLT, 'FleetStore._do_get', M.is_call('self.ready_items.remove'), 'self.ready_items.pop(0)', which=0))
fire('C14', 'fleet-batch-copied-on-arrival (seed C14-b)', 'C14.R6', 'batch-fixed-at-departure',
     lambda p: M.replace_node(p, S_FLT, 'FleetStore.move_to_ready_items', lambda n: isinstance(n, ast.Name) and n.id == 'items' and isinstance(n.ctx, ast.Load)
                              and n.col_offset > 20, 'list(items)', which=0))
fire('C17', 'splitter-pallet-stage-blocked-mark-dropped (seed C17-b)', 'C17.R8', 'Splitter.worker',
     lambda p: M.delete_stmt(p, N_SPL, 'Splitter.worker', M.assign_to('self.env.active_process.thread_state'), which=3))
fire('C17', 'machine-blocking-wait-not-marked-blocked', 'C17.R8', 'Machine.worker',
     lambda p: M.delete_stmt(p, N_MAC, 'Machine.worker', M.assign_to('self.env.active_process.thread_state'), which=2))


# ============================================================================================ blind spots found by tools/mutation_sweep.py
fire('C04', 'buffer-grant-get-without-succeed', 'C04.R5', 'BufferStore._do_reserve_get',
     lambda p: M.delete_stmt(p, S_BUF, 'BufferStore._do_reserve_get', M.stmt_calling('event.succeed')))
fire('C04', 'fleet-grant-put-without-succeed', 'C04.R5', 'FleetStore._do_reserve_put',
     lambda p: M.delete_stmt(p, S_FLT, 'FleetStore._do_reserve_put', M.stmt_calling('event.succeed')))
fire('C07', 'fleet-token-without-resourcename', 'C07.R6', 'FleetStore.reserve_put',
     lambda p: M.delete_stmt(p, S_FLT, 'FleetStore.reserve_put', M.assign_to('event.resourcename')))
fire('C07', 'belt-token-without-requesting-process', 'C07.R6', 'BeltStore.reserve_get',
     lambda p: M.delete_stmt(p, S_BELT, 'BeltStore.reserve_get', M.assign_to('event.requesting_process')))
fire('C02', 'fleet-move-index-from-other-list', 'C02.R5', 'FleetStore.move_to_ready_items',
     lambda p: M.replace_node(p, S_FLT, 'FleetStore.move_to_ready_items', M.is_call('self.items.index'), 'self.ready_items.index(item)'))
fire('C01', 'buffer-put-rejected-by-get-side-list', 'C01.O9', 'BufferStore.put',
     lambda p: M.replace_node(p, S_BUF, 'BufferStore._trigger_put', lambda n: isinstance(n, ast.Attribute) and ast.unparse(n) == 'self.reservations_put', 'self.reservations_get', which=0))
fire('C01', 'fleet-put-rejected-by-get-side-list', 'C01.O9', 'FleetStore.put',
     lambda p: M.replace_node(p, S_FLT, 'FleetStore.put', lambda n: isinstance(n, ast.Attribute) and ast.unparse(n) == 'self.reservations_put', 'self.reservations_get', which=0))
fire('C17', 'combiner-worker-not-registered', 'C17.R10', 'worker-registered',
     lambda p: M.delete_stmt(p, N_CMB, 'Combiner.behaviour', M.stmt_calling('self.worker_thread_list.append')))
fire('C17', 'splitter-slot-not-counted', 'C17.R10', 'slot-counted',
     lambda p: M.delete_stmt(p, N_SPL, 'Splitter.behaviour', M.stmt_calling('self._update_worker_occupancy'), which=0))
fire('C17', 'splitter-classification-never-idle', 'C17.R9', 'classification',
     lambda p: M.delete_stmt(p, N_SPL, 'Splitter.check_thread_state_and_update_splitter_state', M.stmt_calling('self.update_state', 'IDLE_STATE')))
fire('C17', 'source-blocked-not-recorded', 'C17.R11', 'Source.behaviour',
     lambda p: M.delete_stmt(p, N_SRC, 'Source.behaviour', M.stmt_calling('self.update_state', 'BLOCKED_STATE'), which=0))
fire('C17', 'combiner-final-occupancy-not-closed', 'C17.R5', 'Combiner.update_final_state_time',
     lambda p: M.delete_stmt(p, N_CMB, 'Combiner.update_final_state_time', M.stmt_calling('self._update_worker_occupancy')))
fire('C13', 'slotted-stalled-kind-swapped', 'C13.R3', 'covers-empty-moving-stalled',
     lambda p: M.replace_node(p, E_SC, 'ConveyorBelt.behaviour', lambda n: isinstance(n, ast.Attribute) and ast.unparse(n) == 'self.accumulating', 'not self.accumulating', which=0))
fire('C20', 'combiner-behaviour-never-started', 'C20.R3', 'starts-behaviour',
     lambda p: M.delete_stmt(p, N_CMB, 'Combiner.__init__', M.stmt_calling('self.env.process')))
fire('C15', 'source-policy-name-never-resolved', 'C15.R7', 'out_edge_selection-wiring',
     lambda p: M.delete_stmt(p, N_SRC, 'Source.reset', lambda n: isinstance(n, ast.Assign) and 'get_edge_selector' in ast.unparse(n)))
fire('C15', 'source-range-check-off-by-one', 'C15.R3', 'out-range-check',
     lambda p: M.replace_node(p, N_SRC, 'Source.behaviour', lambda n: isinstance(n, ast.Compare) and ast.unparse(n) == 'out_edge_index_to_put < 0', 'out_edge_index_to_put <= 0'))
fire('C20', 'reqstore-level-stamp-not-initialised', 'C20.R1', 'initialised-before-read',
     lambda p: M.delete_stmt(p, S_RS, 'ReservableReqStore.__init__', M.assign_to('self._last_level_change_time')))
fire('C13', 'continuous-stalled-kind-swapped-after-ready', 'C13.R3', 'covers-empty-moving-stalled',
     lambda p: M.replace_node(p, E_CC, 'ConveyorBelt.behaviour', lambda n: isinstance(n, ast.Attribute) and ast.unparse(n) == 'self.accumulating', 'not self.accumulating', which=1))
fire('C18', 'slotted-store-average-not-published', 'C18.R3', 'integrate-previous-level',
     lambda p: M.delete_stmt(p, S_SLOT, 'BeltStore._update_time_averaged_level', M.assign_to('self.time_averaged_num_of_items_in_store')))
fire('C18', 'buffer-put-does-not-republish', 'C18.R7', 'Buffer.put',
     lambda p: M.delete_stmt(p, E_BUF, 'Buffer.put', M.stmt_calling('self._buffer_stats_collector')))
fire('C18', 'fleet-get-does-not-republish', 'C18.R7', 'Fleet.get',
     lambda p: M.delete_stmt(p, E_FLT, 'Fleet.get', M.stmt_calling('self._fleet_stats_collector')))
fire('C10', 'machine-cancel-result-check-inverted', 'C10.R2', 'cancel-loop',
     lambda p: M.replace_node(p, N_MAC, 'Machine.behaviour', lambda n: isinstance(n, ast.UnaryOp) and ast.unparse(n) == 'not event_cancelled', 'event_cancelled'))

# ---- round-3 seeds: validations judged by abstract evaluation over representative configurations (C20.R4)
fire('C20', 'source-zero-interarrival-int-only', 'C20.R4', 'nonblocking-zero-interarrival',
     lambda p: M.replace_node(p, N_SRC, 'Source.__init__', M.if_testing('inter_arrival_time == 0'),
                              sub('inter_arrival_time == 0 and', 'isinstance(inter_arrival_time, int) and inter_arrival_time == 0 and')))
silent('C20', 'source-zero-interarrival-respelled',
       lambda p: M.replace_node(p, N_SRC, 'Source.__init__', M.if_testing('inter_arrival_time == 0'),
                                sub('inter_arrival_time == 0 and not self.blocking', '(not blocking) and isinstance(inter_arrival_time, (int, float)) and inter_arrival_time <= 0')))
fire('C20', 'buffer-mode-case-insensitive-accept', 'C20.R4', 'validates:mode',
     lambda p: M.replace_node(p, E_BUF, 'Buffer.__init__', M.if_testing('self.mode not in'), sub('self.mode not in', 'self.mode.upper() not in')))
silent('C20', 'buffer-mode-respelled',
       lambda p: M.replace_node(p, E_BUF, 'Buffer.__init__', M.if_testing('self.mode not in'), sub('self.mode not in ["FIFO", "LIFO"]', 'not (mode == "FIFO" or mode == "LIFO")')))
fire('C20', 'edge-delay-strictly-negative-only-below-minus-one', 'C20.R4', 'delay>=0',
     lambda p: M.replace_node(p, 'edges/edge.py', 'Edge.get_delay', lambda n: isinstance(n, ast.Assert), sub('val >= 0', 'val > -1')))
silent('C20', 'edge-delay-check-as-raise',
       lambda p: M.replace_node(p, 'edges/edge.py', 'Edge.get_delay', lambda n: isinstance(n, ast.Assert),
                                lambda s: 'if 0 > val:\n    raise ValueError("Delay must be non-negative")'))
silent('C20', 'sink-edge-asserts-respelled',
       lambda p: M.replace_node(p, N_SNK, 'Sink.behaviour', lambda n: isinstance(n, ast.Assert) and 'in_edges' in ast.unparse(n.test),
                                lambda s: 'if not self.in_edges:\n    raise ValueError("sink needs an in_edge")'))

# ---- C19.R6: state that outlives an instance (seed C19-c)
_SRC_STATS_OLD = 'self.stats = {'
def _source_stats_from_class_level(copy_expr):
    def build(p):
        s = p.modules[N_SRC].src
        tree = ast.parse(s)
        init = [f for c in tree.body if isinstance(c, ast.ClassDef) and c.name == 'Source' for f in c.body if isinstance(f, ast.FunctionDef) and f.name == '__init__'][0]
        asg = [n for n in ast.walk(init) if isinstance(n, ast.Assign) and ast.unparse(n.targets[0]) == 'self.stats'][0]
        lit = ast.unparse(asg.value)
        lines = s.split('\n')
        lines[asg.lineno - 1:asg.end_lineno] = [f'        self.stats = {copy_expr}']
        lines[init.lineno - 1:init.lineno - 1] = [f'    _INITIAL_STATS = {lit}', '']
        return {N_SRC: '\n'.join(lines)}
    return build
fire('C19', 'source-stats-shallow-copy-of-class-level-dict (seed C19-c)', 'C19.R6', 'shared(_INITIAL_STATS)',
     _source_stats_from_class_level('dict(self._INITIAL_STATS)'))
fire('C19', 'source-stats-alias-of-class-level-dict', 'C19.R6', 'shared(_INITIAL_STATS)',
     _source_stats_from_class_level('Source._INITIAL_STATS'))
silent('C19', 'source-stats-deepcopy-of-class-level-dict',
       lambda p: {N_SRC: 'import copy\n' + _source_stats_from_class_level('copy.deepcopy(self._INITIAL_STATS)')(p)[N_SRC]})
fire('C19', 'flow-items-numbered-by-module-counter', 'C19.R6', 'mutates-shared(_serial)',
     lambda p: {'helper/baseflowitem.py': 'import itertools\n_serial = itertools.count()\n' + p.modules['helper/baseflowitem.py'].src.replace(
         '        self.payload = None', '        self.payload = None\n        self.serial = next(_serial)', 1)})
fire('C19', 'flow-items-counted-on-the-class', 'C19.R6', 'class-attribute-write(created)',
     lambda p: {'helper/baseflowitem.py': p.modules['helper/baseflowitem.py'].src.replace(
         '    def __init__(self, id):', '    created = 0\n    def __init__(self, id):', 1).replace(
         '        self.payload = None', '        self.payload = None\n        BaseFlowItem.created += 1', 1)})
silent('C19', 'module-level-read-only-table',
       lambda p: {N_SRC: p.modules[N_SRC].src.replace('class Source(Node):', '_STATE_NAMES = ["SETUP_STATE", "GENERATING_STATE", "BLOCKED_STATE"]\n\nclass Source(Node):', 1).replace(
           'if inter_arrival_time == 0 and not self.blocking:', 'if self.state not in _STATE_NAMES:\n            raise ValueError("bad state")\n        if inter_arrival_time == 0 and not self.blocking:', 1)})

# ---- C16.R5: the pallet's own container operations (seed C16-c)
_PAL = 'helper/pallet.py'
fire('C16', 'pallet-add-item-skips-marked-items (seed C16-c)', 'C16.R5', 'Pallet.add_item',
     lambda p: M.insert_before(p, _PAL, 'Pallet.add_item', M.stmt_calling('self.items.append'),
                               'if getattr(item, "pallet_id", None) == self.id:\n    return\nitem.pallet_id = self.id'))
fire('C16', 'pallet-add-item-capacity-cap', 'C16.R5', 'Pallet.add_item',
     lambda p: M.replace_node(p, _PAL, 'Pallet.add_item', M.stmt_calling('self.items.append'), lambda s: 'if len(self.items) < 8:\n    ' + s))
fire('C16', 'pallet-remove-item-peeks', 'C16.R5', 'Pallet.remove_item',
     lambda p: M.replace_node(p, _PAL, 'Pallet.remove_item', lambda n: isinstance(n, ast.Assign), sub('self.items.pop(-1)', 'self.items[-1]')))
silent('C16', 'pallet-add-item-type-checked',
       lambda p: M.insert_before(p, _PAL, 'Pallet.add_item', M.stmt_calling('self.items.append'),
                                 'if item is None:\n    raise ValueError("cannot pack nothing")\nif item in self.items:\n    return'))

# ---- C15.R8: who may consult the policy (seed C15-c)
fire('C15', 'splitter-reset-instantiates-callable-policy (seed C15-c)', 'C15.R8', 'Splitter.reset::consults(out_edge_selection)',
     lambda p: M.replace_node(p, N_SPL, 'Splitter.reset', M.if_testing('isinstance(self.out_edge_selection, int)'),
                              lambda s: 'if callable(self.out_edge_selection):\n    _sel = self.out_edge_selection()\n    if hasattr(_sel, "__next__"):\n        self.out_edge_selection = _sel\n' + s))
fire('C15', 'machine-reset-primes-generator-policy', 'C15.R8', 'Machine.reset::consults(in_edge_selection)',
     lambda p: M.replace_node(p, N_MAC, 'Machine.reset', M.if_testing('isinstance(self.in_edge_selection, int)'),
                              lambda s: 'if hasattr(self.in_edge_selection, "__next__"):\n    policy = self.in_edge_selection\n    next(policy)\n' + s))
silent('C15', 'source-reset-inspects-policy-without-consulting',
       lambda p: M.replace_node(p, N_SRC, 'Source.reset', M.if_testing('isinstance(self.out_edge_selection, int)'),
                                lambda s: 'policy = self.out_edge_selection\nif callable(policy) and not hasattr(policy, "__name__"):\n    print("anonymous policy", repr(policy))\n' + s))

# ---- C18.R8: counters move with the events they count (seed C18-c)
def _machine_count_before_wait(p):
    s = p.modules[N_MAC].src
    old = '                    item.update_node_event(self.id, self.env, "exit")\n                    self.stats["num_item_processed"] += 1\n                    y=outedge_to_put.put(put_event, item)'
    if old not in s or 'put_event=outedge_to_put.reserve_put()' not in s:
        raise M.Stale('Machine.worker blocking constant-index push not found')
    s = s.replace(old, '                    item.update_node_event(self.id, self.env, "exit")\n                    y=outedge_to_put.put(put_event, item)', 1)
    s = s.replace('                    put_event=outedge_to_put.reserve_put()', '                    self.stats["num_item_processed"] += 1\n                    put_event=outedge_to_put.reserve_put()', 1)
    return {N_MAC: s}
fire('C18', 'machine-counts-processed-before-waiting-for-room (seed C18-c)', 'C18.R8', 'counter-instant:num_item_processed', _machine_count_before_wait)
silent('C18', 'machine-counts-processed-right-after-the-put',
       lambda p: {N_MAC: p.modules[N_MAC].src.replace(
           '                    self.stats["num_item_processed"] += 1\n                    y=outedge_to_put.put(put_event, item)',
           '                    y=outedge_to_put.put(put_event, item)\n                    self.stats["num_item_processed"] += 1', 1)})

# ---- C10.R2: cancel loop that edits the list it walks (seed C10-c)
fire('C10', 'sink-cancel-loop-removes-while-iterating (seed C10-c)', 'C10.R2', 'cancel-loop',
     lambda p: M.insert_after(p, N_SNK, 'Sink.behaviour', M.stmt_calling('.reserve_get_cancel'), 'self.in_edge_events.remove(event)'))
silent('C10', 'sink-cancel-loop-over-a-copy-then-clears',
       lambda p: M.chain(p,
                         lambda q: M.insert_after(q, N_SNK, 'Sink.behaviour', M.stmt_calling('.reserve_get_cancel'), 'self.in_edge_events.remove(event)'),
                         lambda q: M.replace_node(q, N_SNK, 'Sink.behaviour', lambda n: isinstance(n, ast.For) and 'reserve_get_cancel' in ast.unparse(n),
                                                  sub('for event in self.in_edge_events:', 'for event in list(self.in_edge_events):'))))

# ---- C14.R2: one suspension per activation cycle (seed C14-c)
fire('C14', 'activation-waits-for-the-trip (seed C14-c)', 'C14.R2', 'wait-set-and-departure',
     lambda p: M.replace_node(p, S_FLT, 'FleetStore.fleet_activation_process', M.stmt_calling('self.env.process', 'move_to_ready_items'),
                              lambda s: 'yield ' + s))

# ---- C13.R4: continuous belt - the exit must be free, the stall flag alone lags (seed C13-c)
fire('C13', 'belt-gate-trusts-stall-flag (seed C13-c)', 'C13.R4', 'accumulation-gate',
     lambda p: M.replace_node(p, S_BELT, 'BeltStore._do_reserve_put', M.if_testing('self.accumulation_mode_indicator == True'),
                              sub('(self.noaccumulation_mode_on==False and len(self.ready_items)==0) or (self.noaccumulation_mode_on==True and len(self.ready_items)==0)',
                                  'self.noaccumulation_mode_on==False or len(self.ready_items)==0')))
silent('C13', 'belt-gate-simplified',
       lambda p: M.replace_node(p, S_BELT, 'BeltStore._do_reserve_put', M.if_testing('self.accumulation_mode_indicator == True'),
                                sub('(self.noaccumulation_mode_on==False and len(self.ready_items)==0) or (self.noaccumulation_mode_on==True and len(self.ready_items)==0)',
                                    'not self.ready_items')))

# ---- C02.R6: mutator vocabulary of the holding / binding lists (seed C02-c)
fire('C02', 'belt-ready-items-sorted-on-arrival (seed C02-c)', 'C02.R6', 'uncovered-mutation:ready_items',
     lambda p: M.insert_after(p, S_BELT, 'BeltStore.move_to_ready_items', M.stmt_calling('self.ready_items.append'),
                              'self.ready_items.sort(key=lambda i: i.conveyor_entry_time)'))
fire('C02', 'buffer-cancel-rebuilds-ready-list', 'C02.R6', 'uncovered-mutation:ready_items',
     lambda p: M.insert_before(p, S_BUF, 'BufferStore.reserve_get_cancel', lambda n: isinstance(n, ast.Return),
                               'self.ready_items = [x for x in self.ready_items if x is not None]'))
silent('C02', 'belt-sorts-a-copy-for-logging',
       lambda p: M.insert_after(p, S_BELT, 'BeltStore.move_to_ready_items', M.stmt_calling('self.ready_items.append'),
                                'print(sorted(self.ready_items, key=lambda i: i.conveyor_entry_time)[:1])'))

# ---- C09.R6: the first-available scan is exhausted before anything is dropped (seed C09-c)
def _machine_scan_breaks_early(p):
    s = p.modules[N_MAC].src
    old = '                    for edge in self.out_edges:\n                        if edge.can_put():\n                            out_edge_index_to_put = edge\n                            break\n'
    if old not in s:
        raise M.Stale('Machine.worker non-blocking first-available scan not found')
    return {N_MAC: s.replace(old, '                    for edge in self.out_edges:\n                        if edge.can_put():\n                            out_edge_index_to_put = edge\n                        break\n', 1)}
fire('C09', 'machine-scan-stops-at-first-edge (seed C09-c)', 'C09.R6', 'scan-exhausted', _machine_scan_breaks_early)

# ---- seed C11-d: "nothing to move" shortcut in a cancellation
_FLT_SKIP = lambda extra: (lambda p: M.insert_after(p, S_FLT, 'FleetStore.reserve_get_cancel', M.stmt_calling('self.reserved_events.pop'),
                                                      'if ev_idx == len(self.reserved_events):\n' + extra + '    return True'))
fire('C04', 'fleet-cancel-shortcut-skips-the-wakeup (seed C11-d)', 'C04.R1', 'FleetStore.reserve_get_cancel', _FLT_SKIP(''))
for _prop in ('C02', 'C04', 'C06'):
    silent(_prop, 'fleet-cancel-shortcut-that-still-wakes-up', _FLT_SKIP('    self._trigger_reserve_get(None)\n'))

# ---- C19.R2: ordering by an address-bearing repr, through an event attribute (seed C19-d)
fire('C19', 'fleet-put-priority-tie-break-by-process-repr (seed C19-d)', 'C19.R2', 'fleet_store.py',
     lambda p: M.replace_node(p, S_FLT, 'FleetStore.reserve_put', M.assign_to('event.priority_to_put'),
                              'event.priority_to_put = (priority, str(event.requesting_process))'))
silent('C19', 'fleet-put-priority-tie-break-by-clock',
       lambda p: M.replace_node(p, S_FLT, 'FleetStore.reserve_put', M.assign_to('event.priority_to_put'),
                                'event.priority_to_put = (priority, self.env.now)'))

# ---- C04.R2: every put arms its own timer (seed C04-d)
fire('C04', 'filter-store-coalesces-trigger-timers (seed C04-d)', 'C04.R2', 'ReservablePriorityReqFilterStore.put',
     lambda p: M.replace_node(p, S_FS, 'ReservablePriorityReqFilterStore._do_put', M.stmt_calling('self.env.process', '_add_trigger_event'),
                              lambda s_: 'if getattr(self, "_trigger_process", None) is None or not self._trigger_process.is_alive:\n    self._trigger_process = self.env.process(self._add_trigger_event())'))

# ---- C05.R4: binary-search insertion into the sorted request queue (seed C05-d)
_PRQ = 'base/priority_req_store.py'
def _sorted_queue_bisect(which):
    def build(p):
        s = p.modules[_PRQ].src
        old = "        super().append(item)\n        super().sort(key=lambda e: e.key)"
        if old not in s:
            raise M.Stale('SortedQueue.append body not found')
        new = ("        if not self or self[-1].key <= item.key:\n            super().append(item)\n            return\n"
               f"        keys = [e.key for e in self]\n        super().insert({which}(keys, item.key), item)")
        return {_PRQ: s.replace(old, new, 1).replace('import simpy,random', f'import simpy,random\nfrom bisect import {which}', 1)}
    return build
fire('C05', 'sorted-queue-inserts-with-bisect-left (seed C05-d)', 'C05.R4', 'SortedQueue.append', _sorted_queue_bisect('bisect_left'))
silent('C05', 'sorted-queue-inserts-with-bisect-right', _sorted_queue_bisect('bisect_right'))

# ---- C07.R1: the loop variable shadows the token parameter (seed C07-d); pop(index(token)) is a removal of the token
fire('C07', 'slotted-do-put-token-compared-with-itself (seed C07-d)', 'C07.R', 'BeltStore',
     lambda p: {S_SLOT: p.modules[S_SLOT].src.replace('def _do_put(self, put_event, item):', 'def _do_put(self, event, item):', 1).replace(
         '(event for event in self.reservations_put if event == put_event and event.requesting_process == self.env.active_process)',
         '(event for event in self.reservations_put if event == event and event.requesting_process == self.env.active_process)', 1)})
silent('C07', 'prs-cancel-removes-token-by-index',
       lambda p: M.replace_node(p, S_PRS, 'ReservablePriorityReqStore.reserve_get_cancel', M.stmt_calling('self.reservations_get.remove'),
                                'self.reservations_get.pop(self.reservations_get.index(get_event_to_cancel))'))

# ---- C18.R9: counters start at 0 and step by one (mutation sweep survivors)
fire('C18', 'sink-received-counter-step-zero', 'C18.R9', 'counter-step:num_item_received',
     lambda p: M.replace_node(p, N_SNK, 'Sink.behaviour', lambda n: isinstance(n, ast.AugAssign) and 'num_item_received' in ast.unparse(n.target), sub('+= 1', '+= 0')))
fire('C18', 'source-generated-counter-starts-at-one', 'C18.R9', 'counter-initial:num_item_generated',
     lambda p: {N_SRC: p.modules[N_SRC].src.replace('"num_item_generated": 0', '"num_item_generated": 1', 1)})
silent('C18', 'machine-counter-step-respelled',
       lambda p: {N_MAC: p.modules[N_MAC].src.replace('self.stats["num_item_discarded"] += 1', 'self.stats["num_item_discarded"] = self.stats["num_item_discarded"] + 1', 1)})

# ---- C15.R7: reset() runs before the first item (mutation sweep survivor)
fire('C15', 'machine-behaviour-never-resets', 'C15.R7', 'reset-before-first-item',
     lambda p: M.delete_stmt(p, N_MAC, 'Machine.behaviour', M.stmt_calling('self.reset')))

# ---- C02.R7: get never fails after it removed the item (seed C02-e)
fire('C02', 'reqstore-get-tests-item-truthiness (seed C02-e)', 'C02.R7', 'ReservableReqStore.get',
     lambda p: M.replace_node(p, S_RS, 'ReservableReqStore.get', lambda n: isinstance(n, ast.If) and ast.unparse(n.test) == 'item is None',
                              sub('if item is None:', 'if not item:')))

# ---- round-5 seeds
fire('C17', 'splitter-idle-stamped-with-setup-duration (seed C19-e)', 'C17.R12', 'Splitter.behaviour::stamp:update_state',
     lambda p: M.replace_node(p, N_SPL, 'Splitter.behaviour', M.stmt_calling('self.update_state', 'IDLE_STATE'), 'self.update_state("IDLE_STATE", self.node_setup_time)'))
fire('C19', 'splitter-idle-stamped-with-setup-duration (seed C19-e)', 'C19.R7', 'Splitter.behaviour::stamp:update_state',
     lambda p: M.replace_node(p, N_SPL, 'Splitter.behaviour', M.stmt_calling('self.update_state', 'IDLE_STATE'), 'self.update_state("IDLE_STATE", self.node_setup_time)'))
fire('C17', 'machine-state-stamped-with-stale-clock', 'C17.R12', 'Machine.behaviour::stamp:update_state_rep',
     lambda p: M.chain(p, lambda q: M.insert_before(q, N_MAC, 'Machine.behaviour', M.stmt_calling('self.reset'), 't_start = self.env.now'),
                       lambda q: M.replace_node(q, N_MAC, 'Machine.behaviour', M.stmt_calling('self.update_state_rep'), 'self.update_state_rep(t_start)', which=2)))
fire('C06', 'combiner-drain-picks-processed-token (seed C20-e)', 'C06.R4', 'selects-by-triggered',
     lambda p: {N_CMB: p.modules[N_CMB].src.replace('chosen_get_event = next((event for event in reservation_tokens if event.triggered), None)',
                                                   'chosen_get_event = next((event for event in reservation_tokens if event.processed), None)', 1)})
fire('C02', 'reqstore-get-truthiness-2', 'C02.R7', 'ReservableReqStore.get',
     lambda p: M.replace_node(p, S_RS, 'ReservableReqStore.get', lambda n: isinstance(n, ast.If) and ast.unparse(n.test) == 'item is not None', sub('if item is not None:', 'if item:')) if False else
     M.replace_node(p, S_RS, 'ReservableReqStore.get', lambda n: isinstance(n, ast.If) and ast.unparse(n.test) == 'item is None', sub('if item is None:', 'if not item:')))

fire('C13', 'belt-resume-event-captured-before-the-wait (seed C13-e)', 'C13.R2', 'interrupted-travel-wait',
     lambda p: {S_BELT: p.modules[S_BELT].src.replace('                        yield self.env.timeout(remaining_phase1_time)', '                        resume_signal = self.resume_event\n                        yield self.env.timeout(remaining_phase1_time)', 1).replace(
         '                        yield self.resume_event\n                        total_interruption_time += self.env.now - interruption_start_time_phase1', '                        yield resume_signal\n                        total_interruption_time += self.env.now - interruption_start_time_phase1', 1)})
silent('C13', 'belt-resume-event-aliased-inside-the-handler',
       lambda p: {S_BELT: p.modules[S_BELT].src.replace(
           '                        yield self.resume_event\n                        total_interruption_time += self.env.now - interruption_start_time_phase1', '                        resume_signal = self.resume_event\n                        yield resume_signal\n                        total_interruption_time += self.env.now - interruption_start_time_phase1', 1)})
silent('C20', 'belt-resume-event-aliased-inside-the-handler',
       lambda p: {S_BELT: p.modules[S_BELT].src.replace(
           '                        yield self.resume_event\n                        total_interruption_time += self.env.now - interruption_start_time_phase1', '                        resume_signal = self.resume_event\n                        yield resume_signal\n                        total_interruption_time += self.env.now - interruption_start_time_phase1', 1)})
fire('C15', 'combiner-policy-defaulted-with-or (seed C15-e)', 'C15.R9', 'Combiner.__init__::stores(out_edge_selection)',
     lambda p: M.replace_node(p, N_CMB, 'Combiner.__init__', M.assign_to('self.out_edge_selection'), 'self.out_edge_selection = out_edge_selection or "FIRST_AVAILABLE"'))
silent('C15', 'combiner-policy-defaulted-when-none',
       lambda p: M.replace_node(p, N_CMB, 'Combiner.__init__', M.assign_to('self.out_edge_selection'),
                                'self.out_edge_selection = out_edge_selection if out_edge_selection is not None else "FIRST_AVAILABLE"'))


# ============================================================================================ every seeded change, as a firing variant
# /verif/seeded/<id>/patch.diff is applied in memory (mutate.apply_patch; stale when a hunk no longer matches the tree).  seed_table.json
# (tools/seed_variants.py) says which properties' own rules reported it and with which rule; the thorough tier re-checks exactly that.
import json as _json
_SEEDS = _pl.Path(__file__).resolve().parent.parent.parent / 'seeded'
_TABLE = _pl.Path(__file__).resolve().parent / 'seed_table.json'
if _TABLE.exists():
    for _sid, _props in sorted(_json.loads(_TABLE.read_text()).items()):
        for _prop, _rule in sorted(_props.items()):
            fire(_prop, f'seeded change {_sid} (independent sub-agent)', _rule, '',
                 lambda p, _sid=_sid: M.apply_patch(p, (_SEEDS / _sid / 'patch.diff').read_text()))


# ============================================================================================ round-6 rules: behaviour-preserving twins
# C04.R3 (the trigger serves whoever calls it): an early exit that says "the queue is empty" is not a lost wake-up
silent('C04', 'slotted-trigger-returns-early-when-queue-empty',
       lambda p: M.insert_before(p, S_SLOT, 'BeltStore._trigger_reserve_put', lambda n: isinstance(n, ast.Assign) and ast.unparse(n).replace(' ', '') == 'idx=0',
                                 'if not self.reserve_put_queue:\n    return'))
silent('C04', 'buffer-trigger-returns-early-when-queue-empty',
       lambda p: M.insert_before(p, S_BUF, 'BufferStore._trigger_reserve_get', lambda n: isinstance(n, ast.Assign) and ast.unparse(n).replace(' ', '') == 'idx=0',
                                 'if len(self.reserve_get_queue) == 0:\n    return'))
fire('C04', 'buffer-trigger-returns-early-for-foreign-argument', 'C04.R3', 'BufferStore._trigger_reserve_put',
     lambda p: M.insert_before(p, S_BUF, 'BufferStore._trigger_reserve_put', lambda n: isinstance(n, ast.Assign) and ast.unparse(n).replace(' ', '') == 'idx=0',
                               'if event is not None and event not in self.reserve_put_queue:\n    return'))
# C13.R6 (the sweep is unconditional): "nothing recorded" is a fine reason to return
silent('C13', 'belt-sweep-returns-early-when-table-empty',
       lambda p: M.insert_before(p, S_BELT, 'BeltStore.interrupt_and_resume_all_delayed_interrupt_processes', lambda n: isinstance(n, ast.For),
                                 'if not self.active_delayed_interrupt_processes:\n    return'))
fire('C13', 'belt-sweep-skipped-when-not-accumulating', 'C13.R6', 'sweep-is-unconditional',
     lambda p: M.insert_before(p, S_BELT, 'BeltStore.interrupt_and_resume_all_delayed_interrupt_processes', lambda n: isinstance(n, ast.For),
                               'if not self.accumulation_mode_indicator:\n    return'))
# C14.R7 / C06.R5 / C12.R4 / C13.R8 (constructor wiring): a local alias is the same value, a constant or an expression is not
silent('C14', 'fleet-store-built-from-local-aliases',
       lambda p: M.chain(p, lambda q: M.insert_before(q, E_FLT, 'Fleet.__init__', M.assign_to('self.inbuiltstore'), 'wait = self.delay\ntrip = transit_delay'),
                         lambda q: M.replace_node(q, E_FLT, 'Fleet.__init__', M.assign_to('self.inbuiltstore'),
                                                  'self.inbuiltstore = FleetStore(env, capacity=self.capacity, delay=wait, transit_delay=trip)')))
fire('C14', 'fleet-store-built-with-doubled-transit', 'C14.R7', 'store-parameter(transit_delay)',
     lambda p: M.replace_node(p, E_FLT, 'Fleet.__init__', M.assign_to('self.inbuiltstore'),
                              'self.inbuiltstore = FleetStore(env, capacity=self.capacity, delay=self.delay, transit_delay=2 * self.transit_delay)'))
fire('C14', 'fleet-store-built-without-delay', 'C14.R7', 'store-parameter(delay)',
     lambda p: M.replace_node(p, E_FLT, 'Fleet.__init__', M.assign_to('self.inbuiltstore'),
                              'self.inbuiltstore = FleetStore(env, capacity=self.capacity, transit_delay=self.transit_delay)'))
fire('C06', 'buffer-store-built-with-default-mode', 'C06.R5', 'store-parameter(mode)',
     lambda p: M.replace_node(p, E_BUF, 'Buffer.__init__', M.assign_to('self.inbuiltstore'), 'self.inbuiltstore = BufferStore(env, capacity=self.capacity)'))
silent('C06', 'buffer-store-built-positionally',
       lambda p: M.replace_node(p, E_BUF, 'Buffer.__init__', M.assign_to('self.inbuiltstore'), 'self.inbuiltstore = BufferStore(env, self.capacity, mode)'))
fire('C12', 'continuous-belt-built-with-unit-speed', 'C12.R4', 'store-parameter(speed)',
     lambda p: M.replace_node(p, E_CC, 'ConveyorBelt.__init__', M.assign_to('self.belt'), 'self.belt = BeltStore(env, capacity, 1, self.accumulating)'))
fire('C13', 'continuous-belt-built-always-accumulating', 'C13.R8', 'store-parameter(accumulation_mode_indicator)',
     lambda p: M.replace_node(p, E_CC, 'ConveyorBelt.__init__', M.assign_to('self.belt'), 'self.belt = BeltStore(env, capacity, self.speed, True)'))
silent('C13', 'continuous-belt-built-with-keywords',
       lambda p: M.replace_node(p, E_CC, 'ConveyorBelt.__init__', M.assign_to('self.belt'),
                                'self.belt = BeltStore(env, capacity=capacity, speed=speed, accumulation_mode_indicator=accumulating)'))
silent('C12', 'continuous-belt-built-with-keywords',
       lambda p: M.replace_node(p, E_CC, 'ConveyorBelt.__init__', M.assign_to('self.belt'),
                                'self.belt = BeltStore(env, capacity=capacity, speed=speed, accumulation_mode_indicator=accumulating)'))
# C15.R7 (a fresh selector per call): binding the generator to a local first is the same thing
silent('C15', 'edge-selector-built-into-a-local-first',
       lambda p: {'utils/utils.py': p.modules['utils/utils.py'].src.replace('    return strategies[sel_type](node, env, edge_type)',
                                                                             '    selector = strategies[sel_type](node, env, edge_type)\n    return selector', 1)})
fire('C15', 'edge-selector-shared-per-strategy', 'C15.R7', 'fresh-selector-per-call',
     lambda p: {'utils/utils.py': p.modules['utils/utils.py'].src.replace('    return strategies[sel_type](node, env, edge_type)',
                                                                           '    cache = node.__dict__.setdefault("_sel", {})\n    if sel_type not in cache:\n        cache[sel_type] = strategies[sel_type](node, env, edge_type)\n    return cache[sel_type]', 1)})
# C05.R1: a request served on the spot while nobody waits overtakes nobody (C01 decides whether the grant itself was allowed)
silent('C05', 'buffer-reserve-put-fast-path-when-nobody-waits',
       lambda p: M.insert_before(p, S_BUF, 'BufferStore.reserve_put', M.stmt_calling('self.reserve_put_queue.append'),
                                 'if not self.reserve_put_queue and len(self.items) + len(self.ready_items) + len(self.reservations_put) < self.capacity:\n'
                                 '    self.reservations_put.append(event)\n    event.succeed()\n    return event'))
silent('C01', 'buffer-reserve-put-fast-path-when-nobody-waits',
       lambda p: M.insert_before(p, S_BUF, 'BufferStore.reserve_put', M.stmt_calling('self.reserve_put_queue.append'),
                                 'if not self.reserve_put_queue and len(self.items) + len(self.ready_items) + len(self.reservations_put) < self.capacity:\n'
                                 '    self.reservations_put.append(event)\n    event.succeed()\n    return event'))
silent('C04', 'buffer-reserve-put-fast-path-when-nobody-waits',
       lambda p: M.insert_before(p, S_BUF, 'BufferStore.reserve_put', M.stmt_calling('self.reserve_put_queue.append'),
                                 'if not self.reserve_put_queue and len(self.items) + len(self.ready_items) + len(self.reservations_put) < self.capacity:\n'
                                 '    self.reservations_put.append(event)\n    event.succeed()\n    return event'))
fire('C05', 'buffer-reserve-put-fast-path-ignores-the-queue', 'C05.R1', 'BufferStore.reserve_put',
     lambda p: M.insert_before(p, S_BUF, 'BufferStore.reserve_put', M.stmt_calling('self.reserve_put_queue.append'),
                               'if len(self.items) + len(self.ready_items) + len(self.reservations_put) < self.capacity:\n'
                               '    self.reservations_put.append(event)\n    event.succeed()\n    return event'))
# C12.R1 (one grant per sweep of a belt queue)
fire('C12', 'continuous-do-reserve-put-returns-true-after-grant', 'C12.R1', 'one grant per sweep',
     lambda p: M.insert_after(p, S_BELT, 'BeltStore._do_reserve_put', M.stmt_calling('event.succeed'), 'return True', which=0))
# C11.R1: a grant that depends on a flag cannot agree with a query that compares lengths
fire('C11', 'fleet-grant-withheld-while-flagged', 'C11.R1', 'Fleet.can_put',
     lambda p: M.chain(p, lambda q: M.insert_after(q, S_FLT, 'FleetStore.__init__', M.assign_to('self.activate_fleet'), 'self.away = False'),
                       lambda q: M.insert_before(q, S_FLT, 'FleetStore._do_reserve_put', lambda n: isinstance(n, ast.If), 'if self.away:\n    return', which=0)))
# added code that changes nothing (normalisation N35)
silent('C07', 'buffer-put-counts-its-calls',
       lambda p: M.insert_before(p, S_BUF, 'BufferStore.put', lambda n: isinstance(n, ast.Assign), "self._n_put_calls = getattr(self, '_n_put_calls', 0) + 1", which=0))
silent('C04', 'buffer-do-reserve-get-looks-at-the-list-after-the-grant',
       lambda p: M.insert_after(p, S_BUF, 'BufferStore._do_reserve_get', M.stmt_calling('self.reservations_get.append'),
                                'for _seen in list(self.reservations_get):\n    _last_seen = _seen'))
silent('C02', 'buffer-do-reserve-get-looks-at-the-list-after-the-grant',
       lambda p: M.insert_after(p, S_BUF, 'BufferStore._do_reserve_get', M.stmt_calling('self.reservations_get.append'),
                                'for _seen in list(self.reservations_get):\n    _last_seen = _seen'))


# ============================================================================================ round-7 rules: behaviour-preserving twins
# N36: `L.remove(x)` and `L.pop(L.index(x))` are the same removal from a local token list
for _prop in ('C10', 'C16', 'C20', 'C03', 'C06'):
    silent(_prop, 'combiner-token-removed-with-remove-instead-of-pop-index',
           lambda p: {N_CMB: p.modules[N_CMB].src.replace('reservation_tokens.pop(token_index)', 'reservation_tokens.remove(chosen_get_event)', 1)})
# C10.R5: transfers go through the edge; taking the edge into a local first is the same call
silent('C10', 'combiner-takes-ingredient-through-a-local-edge',
       lambda p: {N_CMB: p.modules[N_CMB].src.replace('self.item_in_process = self.in_edges[edge_index].get(chosen_get_event)',
                                                      'ingredient_edge = self.in_edges[edge_index]\n                    self.item_in_process = ingredient_edge.get(chosen_get_event)', 1)})
fire('C10', 'machine-pull-through-the-store-handle', 'C10.R5', 'transfer-through-edge',
     lambda p: {N_MAC: p.modules[N_MAC].src.replace('pulled_item =outstore.get(get_token)', 'pulled_item =get_token.resourcename.get(get_token)', 1)}
     if 'pulled_item =outstore.get(get_token)' in p.modules[N_MAC].src else (_ for _ in ()).throw(M.Stale('anchor `pulled_item =outstore.get(get_token)` not found')))
# C15.R10: registration guarded by a membership test - an early return / raise on "already there" is the same guard
silent('C15', 'edge-connect-registers-with-early-continue-style-guard',
       lambda p: {'edges/edge.py': p.modules['edges/edge.py'].src.replace('        if self not in src.out_edges:\n            src.out_edges.append(self)',
                                                                         '        if self in src.out_edges:\n            pass\n        else:\n            src.out_edges.append(self)', 1)})
fire('C15', 'machine-add-out-edges-accepts-duplicates', 'C15.R10', 'Machine.add_out_edges',
     lambda p: M.replace_node(p, N_MAC, 'Machine.add_out_edges', lambda n: isinstance(n, ast.If) and 'not in self.out_edges' in ast.unparse(n.test), 'self.out_edges.append(edge)'))
# C17.R4: names say what they mean - a re-ordered but equivalent chain is fine
silent('C17', 'machine-state-groups-credited-by-nested-ifs',
       lambda p: M.replace_node(p, N_MAC, 'Machine.update_state_rep', lambda n: isinstance(n, ast.If) and ast.unparse(n.test).replace(' ', '') == 'previous_state_rep[1]>0',
                                sub('if previous_state_rep[1] > 0:', 'if not previous_state_rep[1] <= 0:'), which=-1) if False else
       {N_MAC: p.modules[N_MAC].src.replace('            if previous_state_rep[0]>0  and previous_state_rep[1]==0:', '            if previous_state_rep[1]==0 and previous_state_rep[0]>0:', 1)})
# C12.R1 moving time: the same subtraction spelled through a local
silent('C12', 'continuous-spacing-test-takes-off-the-interruption-through-a-local',
       lambda p: {S_BELT: p.modules[S_BELT].src.replace(
           'time_on_belt = self.env.now- self.items[-1][0].conveyor_entry_time - self.items[-1][0].total_interruption_time ',
           'stood_still = self.items[-1][0].total_interruption_time\n                    time_on_belt = self.env.now- self.items[-1][0].conveyor_entry_time - stood_still', 1)})
# C19.R1: dict-view algebra gives a set; iterating the dict itself (insertion order) does not
silent('C19', 'combiner-iterates-a-dict-of-tokens-in-insertion-order',
       lambda p: {N_CMB: p.modules[N_CMB].src.replace('                triggered_events = self.env.any_of(reservation_tokens)\n',
                                                      '                token_edge = {tok: idx for tok, idx in zip(reservation_tokens, reservation_indx)}\n'
                                                      '                for _tok in token_edge:\n                    _last = token_edge[_tok]\n'
                                                      '                triggered_events = self.env.any_of(reservation_tokens)\n', 1)})


# ============================================================================================ round-8 rules: behaviour-preserving twins
# C07.R7: statistics refreshed in a `finally` WITHOUT a return, and a handler that re-raises, let the error through
silent('C07', 'buffer-put-refreshes-statistics-in-finally-without-return',
       lambda p: {E_BUF: p.modules[E_BUF].src.replace('       proceed=self.inbuiltstore.put(event, (item,delay))\n       self._buffer_stats_collector()\n       return proceed',
                                                      '       try:\n           proceed=self.inbuiltstore.put(event, (item,delay))\n       finally:\n           self._buffer_stats_collector()\n       return proceed', 1)})
silent('C20', 'buffer-put-refreshes-statistics-in-finally-without-return',
       lambda p: {E_BUF: p.modules[E_BUF].src.replace('       proceed=self.inbuiltstore.put(event, (item,delay))\n       self._buffer_stats_collector()\n       return proceed',
                                                      '       try:\n           proceed=self.inbuiltstore.put(event, (item,delay))\n       finally:\n           self._buffer_stats_collector()\n       return proceed', 1)})
fire('C07', 'fleet-get-swallows-the-protocol-error', 'C07.R7', 'swallows(handler)',
     lambda p: {E_FLT: p.modules[E_FLT].src.replace('        item = self.inbuiltstore.get(event)\n', '        try:\n            item = self.inbuiltstore.get(event)\n        except RuntimeError:\n            return None\n', 1)})
# C07.R8: success reported through a local flag that is True on every completing path
silent('C07', 'slotted-cancel-single-exit-with-flag-set-in-both-branches',
       lambda p: {S_SLOT: p.modules[S_SLOT].src.replace('            self.reserve_get_queue.remove(get_event_to_cancel)\n            self._trigger_reserve_get(None)\n            return True',
                                                       '            self.reserve_get_queue.remove(get_event_to_cancel)\n            self._trigger_reserve_get(None)\n            done = True\n            return done', 1)})
# C02.R8 / C05.R6: ordering and repr methods do not change what == means
silent('C02', 'flow-items-gain-lt-and-repr-only',
       lambda p: {'helper/baseflowitem.py': p.modules['helper/baseflowitem.py'].src.replace('    def __repr__(self):', '    def __lt__(self, other):\n        return self.id < other.id\n\n    def __repr__(self):', 1)})
silent('C05', 'priority-requests-gain-lt-only',
       lambda p: {'base/priority_req_store.py': p.modules['base/priority_req_store.py'].src.replace('class PriorityGet(Get):\n', 'class PriorityGet(Get):\n     def __lt__(self, other):\n        return self.key < other.key\n', 1)})
fire('C02', 'pallet-becomes-a-dataclass', 'C02.R8', 'value-equality',
     lambda p: {'helper/pallet.py': 'from dataclasses import dataclass\n' + p.modules['helper/pallet.py'].src.replace('class Pallet(BaseFlowItem):', '@dataclass\nclass Pallet(BaseFlowItem):', 1)})
# C13.R9: state changes stay inside behaviour when they move into a nested block of it
fire('C13', 'conveyor-get-releases-the-belt-itself', 'C13.R9', 'state-change',
     lambda p: M.insert_before(p, E_CC, 'ConveyorBelt.get', lambda n: isinstance(n, ast.Return), 'self.set_conveyor_state("MOVING_STATE")', which=-1) if False else
     {E_CC: p.modules[E_CC].src.replace('    def reserve_get(self):\n       return self.belt.reserve_get()', '    def reserve_get(self):\n       self.set_conveyor_state("MOVING_STATE")\n       return self.belt.reserve_get()', 1)})
# C18.R10: the same unconditional stamp through a local
silent('C18', 'item-entry-stamp-through-a-local',
       lambda p: {'helper/baseflowitem.py': p.modules['helper/baseflowitem.py'].src.replace('            self.timestamp_node_entry = env.now', '            t_now = env.now\n            self.timestamp_node_entry = t_now', 1)})
# C12.R5: length through the constructor chain, done completely
silent('C12', 'item-length-through-complete-constructor-chain',
       lambda p: {'helper/baseflowitem.py': p.modules['helper/baseflowitem.py'].src.replace('    def __init__(self, id):\n        self.id = id', '    def __init__(self, id, length=1):\n        self.id = id\n        self.length = length', 1),
                  'helper/item.py': p.modules['helper/item.py'].src.replace('    def __init__(self, id):\n        super().__init__(id)', '    def __init__(self, id, length=1):\n        super().__init__(id, length)', 1),
                  'helper/pallet.py': p.modules['helper/pallet.py'].src.replace('    def __init__(self, id):\n        super().__init__(id)', '    def __init__(self, id, length=1):\n        super().__init__(id, length)', 1),
                  N_SRC: p.modules[N_SRC].src.replace("""                    item = Item(f'item_{self.id+"_"+str(i)}')\n                    item.length = self.item_length""", """                    item = Item(f'item_{self.id+"_"+str(i)}', self.item_length)""", 1)
                                         .replace("""                    item = Pallet(f'pallet_{self.id+"_"+str(i)}')\n                    item.length = self.item_length""", """                    item = Pallet(f'pallet_{self.id+"_"+str(i)}', self.item_length)""", 1)})
# C01.O6: the same validation after a harmless normalisation of an int-valued float is still a rejection of 2.5
silent('C01', 'edge-capacity-validated-through-a-local',
       lambda p: {'edges/edge.py': p.modules['edges/edge.py'].src.replace('        if not isinstance(self.capacity, int) or self.capacity <= 0:', '        cap = self.capacity\n        if not isinstance(cap, int) or cap <= 0:', 1)})


# ============================================================================================ round-9 rules: behaviour-preserving twins
# C09.R7: a value comparison with True is a truth test for the documented domain; an identity test is not
silent('C09', 'machine-blocking-flag-compared-with-eq-true',
       lambda p: {N_MAC: p.modules[N_MAC].src.replace('                if self.blocking:\n                    blocking_start_time = self.env.now', '                if self.blocking == True:\n                    blocking_start_time = self.env.now', 1)})
fire('C09', 'splitter-blocking-flag-identity-test', 'C09.R7', 'blocking-test',
     lambda p: {N_SPL: p.modules[N_SPL].src.replace('if self.blocking:', 'if self.blocking is True:', 1)})
# C14.R2: logging the reason of the wake-up does not make the departure conditional
silent('C14', 'fleet-activation-logs-why-it-woke-up',
       lambda p: M.insert_before(p, S_FLT, 'FleetStore.fleet_activation_process', lambda n: isinstance(n, ast.If) and ast.unparse(n.test) == 'self.items',
                                 'woke_on_capacity = self.activate_fleet.triggered\nprint(woke_on_capacity)'))
# C16.R6: reading the recipe into a local is not rewriting it
silent('C16', 'combiner-reads-recipe-into-a-local',
       lambda p: {N_CMB: p.modules[N_CMB].src.replace('                    qty = self.target_quantity_of_each_item[edge_idx]', '                    recipe = self.target_quantity_of_each_item\n                    qty = recipe[edge_idx]', 1)})
fire('C16', 'combiner-recipe-defaulted-in-reset', 'C16.R6', 'recipe-write',
     lambda p: M.insert_before(p, N_CMB, 'Combiner.reset', lambda n: isinstance(n, ast.If), 'self.target_quantity_of_each_item = [q or 1 for q in self.target_quantity_of_each_item]', which=0))
# C19.R6 chained assignment: two names for two fresh lists are fine
silent('C19', 'reqstore-lists-initialised-by-tuple-assignment',
       lambda p: {S_RS: p.modules[S_RS].src.replace('        self.reserve_put_queue = []  # Queue for managing reserve_put reservations\n        self.reservations_put = []   # List of successful put reservations',
                                                    '        self.reserve_put_queue, self.reservations_put = [], []', 1)})
silent('C01', 'reqstore-lists-initialised-by-tuple-assignment',
       lambda p: {S_RS: p.modules[S_RS].src.replace('        self.reserve_put_queue = []  # Queue for managing reserve_put reservations\n        self.reservations_put = []   # List of successful put reservations',
                                                    '        self.reserve_put_queue, self.reservations_put = [], []', 1)})
silent('C04', 'reqstore-lists-initialised-by-tuple-assignment',
       lambda p: {S_RS: p.modules[S_RS].src.replace('        self.reserve_put_queue = []  # Queue for managing reserve_put reservations\n        self.reservations_put = []   # List of successful put reservations',
                                                    '        self.reserve_put_queue, self.reservations_put = [], []', 1)})
# C13.R7: the same product through a local factor
silent('C13', 'belt-plan-delay-through-a-local-factor',
       lambda p: M.chain(p, lambda q: M.insert_before(q, S_BELT, 'BeltStore._execute_interruption_plan', M.assign_to('delay'), 'per_slot = item_length / self.speed', which=1),
                         lambda q: M.replace_node(q, S_BELT, 'BeltStore._execute_interruption_plan', M.assign_to('delay'), 'delay = delay * per_slot', which=1)))
