"""State that outlives an instance: module-level and class-level mutable objects that are written at run time, or that flow - aliased or
shallow-copied - into instance attributes which are then mutated in place.

Such state is shared by all instances of a class and survives from one run to the next inside one interpreter, so two runs of the same model
with the same seed do not start from the same state (C19), and an object held "by one node" is reachable from another (C03).

Works on the source *as written* (the normaliser propagates constants into their use sites, which would hide exactly this aliasing).
Pure AST; nothing is imported or executed.
"""
from __future__ import annotations

import ast
from typing import Dict, List, Optional, Tuple

MUTATING = {'append', 'pop', 'remove', 'insert', 'extend', 'clear', 'sort', 'reverse', 'update', 'add', 'discard', 'setdefault', 'popitem',
            'appendleft', 'popleft', 'rotate', 'seed', 'shuffle', '__setitem__', '__delitem__', 'send'}
MUTABLE_CTORS = {'list', 'dict', 'set', 'deque', 'defaultdict', 'Counter', 'OrderedDict', 'count', 'cycle', 'iter', 'Random', 'bytearray', 'SimpleNamespace'}
SHALLOW_CALLS = {'dict', 'list', 'set', 'tuple', 'copy', 'OrderedDict', 'sorted'}


def is_mutable_value(n: ast.AST) -> bool:
    if isinstance(n, (ast.List, ast.Dict, ast.Set, ast.ListComp, ast.DictComp, ast.SetComp, ast.GeneratorExp)):
        return True
    if isinstance(n, ast.Call):
        f = n.func
        name = f.id if isinstance(f, ast.Name) else f.attr if isinstance(f, ast.Attribute) else None
        return name in MUTABLE_CTORS
    return False


def nested_mutables(n: ast.AST) -> List[Optional[object]]:
    """keys (constant, or None when not constant) under which a container literal holds further mutable objects"""
    out = []
    if isinstance(n, ast.Dict):
        for k, v in zip(n.keys, n.values):
            if v is not None and is_mutable_value(v):
                out.append(k.value if isinstance(k, ast.Constant) else None)
    elif isinstance(n, (ast.List, ast.Tuple, ast.Set)):
        for i, v in enumerate(n.elts):
            if is_mutable_value(v):
                out.append(i)
    elif isinstance(n, (ast.ListComp, ast.SetComp, ast.GeneratorExp)):
        if is_mutable_value(n.elt):
            out.append(None)
    elif isinstance(n, ast.DictComp):
        if is_mutable_value(n.value):
            out.append(None)
    return out


class Root:
    def __init__(self, rel, cls, name, value, line):
        self.rel, self.cls, self.name, self.value, self.line = rel, cls, name, value, line
        self.nested = nested_mutables(value)

    @property
    def label(self):
        return f'{self.rel}::{self.cls + "." if self.cls else ""}{self.name}'


def _functions(tree):
    """(class name or None, FunctionDef) for every function of the module, methods and nested ones included"""
    def rec(node, cls):
        for c in ast.iter_child_nodes(node):
            if isinstance(c, ast.ClassDef):
                yield from rec(c, c.name)
            elif isinstance(c, (ast.FunctionDef, ast.AsyncFunctionDef)):
                yield cls, c
                yield from rec(c, cls)
            elif not isinstance(c, ast.Lambda):
                yield from rec(c, cls)
    yield from rec(tree, None)


def _strip_subscripts(n):
    keys = []
    while isinstance(n, ast.Subscript):
        k = n.slice
        keys.append(k.value if isinstance(k, ast.Constant) else None)
        n = n.value
    return n, list(reversed(keys))


def collect_roots(trees: Dict[str, ast.Module]) -> List[Root]:
    roots = []
    for rel, tree in sorted(trees.items()):
        for s in tree.body:
            if isinstance(s, (ast.Assign, ast.AnnAssign)) and getattr(s, 'value', None) is not None and is_mutable_value(s.value):
                for t in (s.targets if isinstance(s, ast.Assign) else [s.target]):
                    if isinstance(t, ast.Name) and t.id != '__all__':
                        roots.append(Root(rel, None, t.id, s.value, s.lineno))
            if isinstance(s, ast.ClassDef):
                for b in s.body:
                    if isinstance(b, (ast.Assign, ast.AnnAssign)) and getattr(b, 'value', None) is not None and is_mutable_value(b.value):
                        for t in (b.targets if isinstance(b, ast.Assign) else [b.target]):
                            if isinstance(t, ast.Name):
                                roots.append(Root(rel, s.name, t.id, b.value, b.lineno))
    return roots


def attr_mutations(trees) -> Dict[str, List[Tuple[int, list, str, int]]]:
    """attribute name -> [(depth, keys, where, line)]: in-place mutations of the object held in `<x>.attr` (depth 0) or of an object it contains
    (depth >= 1, with the constant keys of the access path where known); one level of local aliasing `d = self.attr[k]` is followed"""
    out: Dict[str, list] = {}
    for rel, tree in trees.items():
        for cls, fn in _functions(tree):
            where = f'{rel}::{cls + "." if cls else ""}{fn.name}'
            alias: Dict[str, Tuple[str, list]] = {}
            for n in ast.walk(fn):
                if isinstance(n, ast.Assign) and len(n.targets) == 1 and isinstance(n.targets[0], ast.Name):
                    base, keys = _strip_subscripts(n.value)
                    if isinstance(base, ast.Attribute):
                        alias[n.targets[0].id] = (base.attr, keys)

            def note(base, keys, line):
                if isinstance(base, ast.Attribute):
                    out.setdefault(base.attr, []).append((len(keys), keys, where, line))
                elif isinstance(base, ast.Name) and base.id in alias:
                    a, k0 = alias[base.id]
                    out.setdefault(a, []).append((len(k0) + len(keys), k0 + keys, where, line))
            for n in ast.walk(fn):
                if isinstance(n, ast.Call) and isinstance(n.func, ast.Attribute) and n.func.attr in MUTATING:
                    base, keys = _strip_subscripts(n.func.value)
                    note(base, keys, n.lineno)
                elif isinstance(n, (ast.Assign, ast.AugAssign, ast.Delete, ast.AnnAssign)):
                    tg = n.targets if isinstance(n, (ast.Assign, ast.Delete)) else [n.target]
                    for t in tg:
                        if isinstance(t, ast.Subscript):
                            base, keys = _strip_subscripts(t)
                            note(base, keys[:-1], n.lineno)
    return out


def scan(trees: Dict[str, ast.Module]):
    """-> (findings [(rel, line, construct, message)], number of candidate sites examined)"""
    roots = collect_roots(trees)
    mod_roots = {(r.rel, r.name): r for r in roots if r.cls is None}
    cls_roots: Dict[str, List[Root]] = {}
    for r in roots:
        if r.cls is not None:
            cls_roots.setdefault(r.name, []).append(r)
    class_names = {c.name for t in trees.values() for c in ast.walk(t) if isinstance(c, ast.ClassDef)}
    muts = attr_mutations(trees)
    findings, sites = [], len(roots)
    # names that a class also binds per instance (`self.X = ...`): `self.X` then denotes the instance attribute, not the class-level object
    inst_bound = set()
    for rel, tree in trees.items():
        for cls, fn in _functions(tree):
            for n in ast.walk(fn):
                if isinstance(n, (ast.Assign, ast.AnnAssign)):
                    for t in (n.targets if isinstance(n, ast.Assign) else [n.target]):
                        if isinstance(t, ast.Attribute) and isinstance(t.value, ast.Name) and t.value.id == 'self' and t.attr in cls_roots:
                            inst_bound.add((rel, cls, t.attr))

    def root_of(n, rel, cls, fn_locals) -> Optional[Root]:
        """the shared object an expression denotes, if any"""
        if isinstance(n, ast.Name):
            if n.id in fn_locals:
                return None
            return mod_roots.get((rel, n.id))
        if isinstance(n, ast.Attribute) and n.attr in cls_roots:
            v = n.value
            recv_ok = (isinstance(v, ast.Name) and (v.id in ('self', 'cls') or v.id in class_names)) or \
                      (isinstance(v, ast.Attribute) and v.attr == '__class__') or \
                      (isinstance(v, ast.Call) and isinstance(v.func, ast.Name) and v.func.id == 'type')
            if recv_ok and isinstance(v, ast.Name) and v.id == 'self' and (rel, cls, n.attr) in inst_bound:
                recv_ok = False
            if recv_ok:
                cands = cls_roots[n.attr]
                same = [c for c in cands if c.cls == cls and c.rel == rel]
                return (same or cands)[0]
        return None

    def copy_kind(n, rel, cls, fn_locals):
        """(root, 'alias' | 'shallow') when the expression is a shared object or a shallow copy of one"""
        r0 = root_of(n, rel, cls, fn_locals)
        if r0 is not None:
            return r0, 'alias'
        if isinstance(n, ast.Call):
            f = n.func
            name = f.id if isinstance(f, ast.Name) else f.attr if isinstance(f, ast.Attribute) else None
            if name == 'deepcopy':
                return None
            if name in SHALLOW_CALLS:
                if isinstance(f, ast.Attribute) and name == 'copy' and not n.args:          # X.copy()
                    r1 = root_of(f.value, rel, cls, fn_locals)
                    return (r1, 'shallow') if r1 else None
                if n.args:
                    r1 = root_of(n.args[0], rel, cls, fn_locals)
                    return (r1, 'shallow') if r1 else None
        if isinstance(n, ast.Dict) and any(k is None for k in n.keys):                       # {**X, ...}
            for k, v in zip(n.keys, n.values):
                if k is None:
                    r1 = root_of(v, rel, cls, fn_locals)
                    if r1:
                        return r1, 'shallow'
        if isinstance(n, (ast.List, ast.Tuple, ast.Set)):
            for e in n.elts:
                if isinstance(e, ast.Starred):
                    r1 = root_of(e.value, rel, cls, fn_locals)
                    if r1:
                        return r1, 'shallow'
        if isinstance(n, ast.Subscript) and isinstance(n.slice, ast.Slice):
            r1 = root_of(n.value, rel, cls, fn_locals)
            if r1:
                return r1, 'shallow'
        if isinstance(n, ast.BinOp) and isinstance(n.op, (ast.Add, ast.BitOr)):
            for side in (n.left, n.right):
                r1 = root_of(side, rel, cls, fn_locals)
                if r1:
                    return r1, 'shallow'
        return None

    for rel, tree in sorted(trees.items()):
        for cls, fn in _functions(tree):
            where = f'{rel}::{cls + "." if cls else ""}{fn.name}'
            globals_ = {g for n in ast.walk(fn) if isinstance(n, ast.Global) for g in n.names}
            params = {a.arg for a in fn.args.args + fn.args.kwonlyargs + fn.args.posonlyargs} | ({fn.args.vararg.arg} if fn.args.vararg else set()) \
                | ({fn.args.kwarg.arg} if fn.args.kwarg else set())
            stored = {n.id for n in ast.walk(fn) if isinstance(n, ast.Name) and isinstance(n.ctx, (ast.Store, ast.Del))}
            fn_locals = (params | stored) - globals_
            # (iv) module state rebound at run time
            for n in ast.walk(fn):
                if isinstance(n, (ast.Assign, ast.AugAssign, ast.AnnAssign)):
                    for t in (n.targets if isinstance(n, ast.Assign) else [n.target]):
                        if isinstance(t, ast.Name) and t.id in globals_:
                            sites += 1
                            findings.append((rel, n.lineno, f'{where}::global({t.id})',
                                             f'module-level name `{t.id}` is rebound at run time (`global {t.id}`): its value survives from one run to the next in the same interpreter'))
                        # (v) class attribute written from a method
                        if isinstance(t, ast.Attribute):
                            v = t.value
                            via = None
                            if isinstance(v, ast.Name) and (v.id in class_names or (v.id == 'cls' and 'cls' in params)):
                                via = v.id
                            elif isinstance(v, ast.Attribute) and v.attr == '__class__':
                                via = ast.unparse(v)
                            elif isinstance(v, ast.Call) and isinstance(v.func, ast.Name) and v.func.id == 'type':
                                via = ast.unparse(v)
                            if via:
                                sites += 1
                                findings.append((rel, n.lineno, f'{where}::class-attribute-write({t.attr})',
                                                 f'class attribute `{via}.{t.attr}` is written at run time: the value is shared by all instances and survives from one run to the next'))
            # local names bound to a shared object / a shallow copy of one
            local_src: Dict[str, tuple] = {}
            for n in ast.walk(fn):
                if isinstance(n, ast.Assign) and len(n.targets) == 1 and isinstance(n.targets[0], ast.Name):
                    ck = copy_kind(n.value, rel, cls, fn_locals)
                    if ck is None:
                        base, keys = _strip_subscripts(n.value)
                        r0 = root_of(base, rel, cls, fn_locals) if keys else None
                        if r0 is not None:
                            ck = (r0, 'element')
                    if ck:
                        local_src[n.targets[0].id] = ck

            def denotes(n):
                """(root, depth-kind) for an expression that is a shared object, an element of one, or a local bound to one"""
                base, keys = _strip_subscripts(n)
                r0 = root_of(base, rel, cls, fn_locals)
                if r0 is not None:
                    return r0, 'alias'
                if isinstance(base, ast.Name) and base.id in local_src and local_src[base.id][1] in ('alias', 'element'):
                    return local_src[base.id][0], 'alias'
                if isinstance(base, ast.Name) and base.id in local_src and local_src[base.id][1] == 'shallow' and keys and local_src[base.id][0].nested:
                    return local_src[base.id][0], 'nested-of-shallow'
                return None
            # (i)/(iii) direct mutation
            for n in ast.walk(fn):
                hit = None
                if isinstance(n, ast.Call) and isinstance(n.func, ast.Attribute) and n.func.attr in MUTATING:
                    hit = denotes(n.func.value)
                    if hit and hit[1] == 'nested-of-shallow':
                        pass
                elif isinstance(n, ast.Call) and isinstance(n.func, ast.Name) and n.func.id == 'next' and n.args:
                    hit = denotes(n.args[0])
                elif isinstance(n, (ast.Assign, ast.AugAssign, ast.Delete, ast.AnnAssign)):
                    for t in (n.targets if isinstance(n, (ast.Assign, ast.Delete)) else [n.target]):
                        if isinstance(t, ast.Subscript):
                            d = denotes(t.value)
                            if d and (d[1] == 'alias' or isinstance(t.value, ast.Subscript)):
                                hit = d
                if hit:
                    sites += 1
                    r0 = hit[0]
                    findings.append((rel, n.lineno, f'{where}::mutates-shared({r0.name})',
                                     f'`{r0.name}` ({r0.label}, line {r0.line}) is created once per {"class" if r0.cls else "module"} and is mutated here: '
                                     f'every instance and every later run in the same interpreter sees the change'))
            # (ii) escape into instance state
            for n in ast.walk(fn):
                if not isinstance(n, (ast.Assign, ast.AnnAssign)) or getattr(n, 'value', None) is None:
                    continue
                for t in (n.targets if isinstance(n, ast.Assign) else [n.target]):
                    if not (isinstance(t, ast.Attribute) and isinstance(t.value, ast.Name) and t.value.id == 'self'):
                        continue
                    ck = copy_kind(n.value, rel, cls, fn_locals)
                    if ck is None and isinstance(n.value, ast.Name) and n.value.id in local_src and local_src[n.value.id][1] in ('alias', 'shallow'):
                        ck = local_src[n.value.id]
                    if ck is None:
                        continue
                    sites += 1
                    r0, kind = ck
                    ms = muts.get(t.attr, [])
                    if kind == 'alias':
                        bad = ms[:1]
                        how = 'is the shared object itself'
                    else:
                        bad = [m for m in ms if m[0] >= 1 and r0.nested and (m[1][0] is None or None in r0.nested or m[1][0] in r0.nested)]
                        how = (f'is a shallow copy: the container(s) under {sorted(map(repr, r0.nested))} are still the ones created once per '
                               f'{"class" if r0.cls else "module"}')
                    if bad:
                        bad.sort(key=lambda m: (not m[2].startswith(where.rsplit('.', 1)[0]), not m[2].startswith(rel)))   # prefer a site in the same class / module
                        d, keys, mwhere, mline = bad[0]
                        findings.append((rel, n.lineno, f'{where}::shared({r0.name})→self.{t.attr}',
                                         f'`self.{t.attr}` {how} (`{r0.name}`, {r0.label} line {r0.line}) and is mutated in place at {mwhere} line {mline}: '
                                         f'all instances share that state and it survives from one run to the next in the same interpreter'))
    # two attributes bound to ONE mutable object by a chained assignment (`self.a = self.b = []`): what is appended to one list is in the other
    for rel, tree in trees.items():
        for cls, fn in _functions(tree):
            for n in ast.walk(fn):
                if isinstance(n, ast.Assign) and len(n.targets) >= 2 and is_mutable_value(n.value):
                    attrs = [t.attr for t in n.targets if isinstance(t, ast.Attribute) and isinstance(t.value, ast.Name) and t.value.id == 'self']
                    sites += 1
                    if len(attrs) >= 2:
                        where = f'{rel}::{cls}.{fn.name}' if cls else f'{rel}::{fn.name}'
                        findings.append((rel, n.lineno, f'{where}::one-object-two-attributes({",".join(sorted(attrs))})',
                                         f'`{" = ".join("self." + a for a in attrs)} = {ast.unparse(n.value)}` binds {len(attrs)} attributes to ONE '
                                         f'{type(n.value).__name__.lower()} object: every element added through one name is seen through the other '
                                         f'(granted put and get reservations are counted in each other\'s admission test)'))
    return findings, sites


CANARY = '''
import itertools
_ids = itertools.count()
class Node:
    _DEFAULTS = {"n": 0, "per_state": {"A": 0.0, "B": 0.0}}
    created = 0
    def __init__(self):
        self.stats = dict(self._DEFAULTS)
        self.uid = next(_ids)
        Node.created += 1
    def tick(self, s, dt):
        self.stats["per_state"][s] += dt
'''
