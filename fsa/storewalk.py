"""Shared walk over the store classes: the explored paths of every entry point, process root and
trigger function of every store, computed once per Project and shared by C01/C02/C04/C07/C18."""
from __future__ import annotations

import ast
from typing import Dict, List, Optional, Set

from . import lin, paths, tables
from .model import AnalysisError, FuncInfo, Project, self_attr, walk_no_nested
from .tables import RP, RG, RE, RI, QP, QG, StoreInfo, TRIGGERS, LEVEL_UPDATER


def i1_atom(ex: paths.Explorer, st, store: StoreInfo):
    """Σ_H|L| + |RP| − cap <= 0 in the current variables of the state."""
    e: lin.Lin = {}
    for L in store.holders + [RP]:
        e = lin.ladd(e, ex.len_lin(L, st))
    e = lin.ladd(e, {'cap': -1})
    return ('<=', lin.norm(e))


def lockstep_atoms(ex, st, store: StoreInfo):
    """|RE| = |RG| (= |RI|), |RG| <= |A|: the binding invariant assumed at stable points."""
    out = []
    rg = ex.len_lin(RG, st)
    re_ = ex.len_lin(RE, st)
    out.append(('==', lin.norm(lin.ladd(rg, re_, -1))))
    if store.has_ri:
        out.append(('==', lin.norm(lin.ladd(rg, ex.len_lin(RI, st), -1))))
    out.append(('<=', lin.norm(lin.ladd(rg, ex.len_lin(store.avail, st), -1))))
    return out


class StoreWalk:
    def __init__(self, p: Project, store: StoreInfo, assume_inv=('I1',), unroll: int = 2):
        self.p = p
        self.store = store
        tracked = set(store.lists)
        self.atomic = {LEVEL_UPDATER, *TRIGGERS}

        def assume(ex, st):
            out = []
            if 'I1' in assume_inv:
                out.append(i1_atom(ex, st, store))
            if 'LOCK' in assume_inv:
                out += lockstep_atoms(ex, st, store)
            return out
        self.assume = assume if assume_inv else None
        self.ex = paths.Explorer(p, store.ci.key, tracked=tracked, atomic=self.atomic, assume=self.assume, unroll=unroll)
        # trigger / grant functions analysed as roots of their own, with the grant function inlined
        self.ex_trig = paths.Explorer(p, store.ci.key, tracked=tracked, atomic={LEVEL_UPDATER}, assume=self.assume,
                                      unroll=unroll, depth=5)
        self.roots: Dict[str, List[paths.Path]] = {}
        self.root_funcs: Dict[str, FuncInfo] = {}
        names = list(tables.STORE_API) + list(store.process_roots)
        for name in names:
            fi = store.methods[name]
            self.root_funcs[name] = fi
            self.roots[name] = self.ex.paths(fi)
        for name in TRIGGERS:
            fi = store.methods[name]
            self.root_funcs[name] = fi
            self.roots[name] = self.ex_trig.paths(fi)
        self.npaths = sum(len(v) for v in self.roots.values())

    # reachability over self-calls / super-calls / spawns from the roots --------------------
    def reachable_methods(self) -> Set[str]:
        """keys (FuncInfo.key) of methods reachable from the explored roots via self.m(), super().m()."""
        p, store = self.p, self.store
        seen: Set[str] = set()
        work: List[FuncInfo] = [store.methods[n] for n in self.roots if n in store.methods]
        init = store.methods.get('__init__')
        if init:
            work.append(init)
        while work:
            fi = work.pop()
            if fi.key in seen:
                continue
            seen.add(fi.key)
            for n in walk_no_nested(fi.node):
                if isinstance(n, ast.Call) and isinstance(n.func, ast.Attribute):
                    v = n.func.value
                    if isinstance(v, ast.Name) and v.id == 'self' and n.func.attr in store.methods:
                        work.append(store.methods[n.func.attr])
                    elif isinstance(v, ast.Call) and isinstance(v.func, ast.Name) and v.func.id == 'super' and fi.cls:
                        t = p.super_method((fi.module, fi.cls), n.func.attr)
                        if t is not None:
                            work.append(t)
                elif isinstance(n, ast.Attribute) and isinstance(n.value, ast.Name) and n.value.id == 'self' \
                        and n.attr in store.methods and not isinstance(getattr(n, 'ctx', None), ast.Store):
                    # method value used as a callback: event.callbacks.append(self._trigger_reserve_put)
                    work.append(store.methods[n.attr])
        return seen

    def all_hierarchy_functions(self) -> List[FuncInfo]:
        out = []
        for ci in self.p.mro(self.store.ci.key):
            out.extend(ci.methods.values())
        return out

    def op_sites(self, lists: Set[str], ops=('append', 'insert', 'pop', 'remove')):
        """AST sites (FuncInfo, Call node, list, op) of list mutations in the class hierarchy."""
        out = []
        for fi in self.all_hierarchy_functions():
            for n in walk_no_nested(fi.node):
                if isinstance(n, ast.Call) and isinstance(n.func, ast.Attribute) and n.func.attr in ops:
                    L = self_attr(n.func.value)
                    if L in lists:
                        out.append((fi, n, L, n.func.attr))
        return out

    def covered_lines(self) -> Set[tuple]:
        """(function qual, line) of every event on every explored path."""
        out = set()
        for ps in self.roots.values():
            for pa in ps:
                for e in pa.events:
                    out.add((e.fn, e.line))
        return out


_CACHE: Dict[tuple, List[StoreWalk]] = {}


def walks(p: Project, assume_inv=('I1',), unroll: int = None) -> List[StoreWalk]:
    assume_inv = tuple(assume_inv or ())
    unroll = unroll if unroll is not None else paths.DEFAULT_UNROLL
    cache = p.__dict__.setdefault('_storewalk_cache', {})
    key = (assume_inv, unroll)
    if key not in cache:
        cache[key] = [StoreWalk(p, s, assume_inv, unroll) for s in tables.discover_stores(p)]
    return cache[key]


def rel(fi_or_module) -> str:
    m = fi_or_module.module if hasattr(fi_or_module, 'module') else fi_or_module
    return f'src/factorysimpy/{m}'
