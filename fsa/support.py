"""Supporting clauses: rule instances one property borrows from another property's rule module.

A property P depends on the clause when the clause is a *necessary condition* of P -- breaking it breaks P's behaviour, e.g. a node can only "push at
the instant the out-edge has room" (C09, C10) when the edge's can_put() is exact (C11.R1).  The borrowed rule is evaluated by its home module on the
same parsed project and its instances are recorded under the id `<P>/<home rule>`; P's check reports a violated instance as a violation of P.

* instances the home property lists in known_findings.json are NOT borrowed: a recorded defect is reported (KNOWN-FINDING) by its home property only,
  every other violation of the borrowed rule is reported by both;
* `where`: substrings of the construct key that restrict the borrowed instances to the components P speaks about;
* the floor of a borrowed rule is 1 instance (0 for the home rules whose expected count is zero and which carry a canary instead): a clause that
  vanished is an analysis error of P's check as well.
"""
from __future__ import annotations

from . import report
from .model import AnalysisError

# property -> [(home property, rule ids, where-filter or None, why this is a necessary condition of the property)]
SUPPORT = {
    'C01': [('C19', ['C19.R6'], ('base/', 'package::'), 'the lists and counters a store / node keeps are its own: no object shared between instances, no two attributes bound to one list'),
            ('C07', ['C07.R6'], None,
             'a granted reservation is honoured only if its owner is the process that asked for it: the owner tag is taken at request time')],
    'C03': [('C02', ['C02.R1', 'C02.R5', 'C02.R7'], None,
             'factory-wide conservation needs every store operation to be multiset-neutral and to hand out the item it removed'),
            ('C10', ['C10.R1', 'C10.R2', 'C10.R5'], None,
             'every generated item ends up received or discarded only if no item is stranded: a reservation left behind binds the next item to nobody, a conveyor '
             'whose process is never told of a transfer strands the items behind')],
    'C04': [('C19', ['C19.R6'], ('base/', 'package::'), 'the lists and counters a store / node keeps are its own: no object shared between instances, no two attributes bound to one list'),
            ('C13', ['C13.R2'], None,
             'a reservation waiting for the end of a belt travel is served only if the travel, resumed after a stall, ends at the computed instant'),
            ('C12', ['C12.R2'], None,
             'the belt store re-triggers waiting space requests at the end of the travel time the EDGE hands it: both sides must compute it by the same formula')],
    'C06': [('C19', ['C19.R6'], ('base/', 'package::'), 'the lists and counters a store / node keeps are its own: no object shared between instances, no two attributes bound to one list'),
            ('C11', ['C11.R4'], None,
             'the retrieval order is the order of becoming ready: each delay timer promotes its own item'),
            ('C20', ['C20.R4'], ('validates:mode',),
             'the store treats every mode that is not exactly "FIFO" as LIFO: the Buffer must reject what the store does not distinguish')],
    'C08': [('C04', ['C04.R1'], None, 'an item leaves late only while no permitted out-edge can accept it: the waiting put reservation must be woken'),
            ('C11', ['C11.R1'], None, 'the node decides "able to accept" by can_put()'),
            ('C11', ['C11.R5'], ('get_delay',), 'the delay is drawn exactly once per item only if every get_delay() call consults its source'),
            ('C10', ['C10.R1', 'C10.R2'], None, 'a reservation the node leaves behind on an out-edge occupies its slot for ever: later items are held although the edge is empty'),
            ('C15', ['C15.R7'], ('fresh-selector-per-call',), 'an item is held past its delay when the rotation sends it to a full edge while the edge whose turn it is stands empty')],
    'C09': [('C11', ['C11.R1'], None, 'push-or-drop is decided by can_put(): it must agree with the grant condition'),
            ('C06', ['C06.R4'], ('reserve_put',), 'a blocking node waits until AN out-edge accepts: it waits on all its put reservations and takes the first granted')],
    'C10': [('C04', ['C04.R1'], None, 'work is taken / delivered at once only if the store wakes the waiting reservation at that instant'),
            ('C11', ['C11.R1'], None, 'the node decides "has room / has an item" by can_put() / can_get()'),
            ('C15', ['C15.R7'], ('fresh-selector-per-call',), 'an in-edge whose round-robin turn never comes keeps its items although the node is free'),
            ('C12', ['C12.R1'], ('spacing-gate[non-empty belt]',), 'a producer blocked at the belt entry is served at the instant the last item has cleared one item length: the gate must accept that exact instant')],
    'C11': [('C19', ['C19.R6'], ('base/', 'edges/', 'package::'), 'the lists and counters a store / node keeps are its own: no object shared between instances, no two attributes bound to one list'),
            ('C04', ['C04.R1'], None, 'can_get()/can_put() ≡ "granted immediately" presupposes that nothing servable is left waiting in front'),
            ('C02', ['C02.R5'], None, 'the ready block counted by can_get() is the block the granted reservations are bound to (index agreement)')],
    'C12': [('C13', ['C13.R6', 'C13.R7'], None, 'minimum travel time and spacing survive a stall only with the stall bookkeeping of C13'),
            ('C06', ['C06.R1', 'C06.R2'], ('belt_store', 'conveyor'), 'items leave in entry order: the belt store hands out / re-inserts in FIFO position')],
    'C13': [('C12', ['C12.R2'], None, 'closing-up distances are computed from the same travel-delay formula')],
    'C14': [('C06', ['C06.R1', 'C06.R2'], ('fleet_store', 'fleet.py'), 'a delivered batch is handed out whole and in order'),
            ('C19', ['C19.R6'], ('fleet', 'package::'), 'each fleet delivers its own batch: no list shared between instances'),
            ('C01', ['C01.O7'], ('fleet.py',), 'the destination talks to the store through the Fleet wrappers: each delegates exactly once on every completing path')],
    'C15': [('C04', ['C04.R1'], None, 'FIRST_AVAILABLE = lowest index with room: a cancelled grant on a lower-index edge must wake the request queued behind it'),
            ('C06', ['C06.R4'], None, 'FIRST_AVAILABLE on the input side means the first granted token'),
            ('C11', ['C11.R1'], None, 'FIRST_AVAILABLE on the output side chooses by can_put()')],
    'C16': [('C02', ['C02.R1', 'C02.R5'], None, 'the pallet / the packed items are the objects the stores handed out'),
            ('C03', ['C03.R1'], ('nodes/splitter.py', 'nodes/combiner.py'), 'every item taken by a splitter / combiner is emitted or packed on every path'),
            ('C11', ['C11.R1'], None, 'a non-blocking splitter emits exactly what can_put() lets through')],
    'C17': [('C19', ['C19.R6'], ('nodes/', 'package::'), 'the lists and counters a store / node keeps are its own: no object shared between instances, no two attributes bound to one list'),
            ('C07', ['C07.R8'], ('.put::',), 'time charged to BLOCKED is time spent waiting for room: a blocking Source suspends on whatever put() returns that is a process')],
    'C19': [('C18', ['C18.R6'], None, 'time is monotone for every component only if every recorded instant is a reading of the kernel clock, not a rounded or derived value')],
    'C02': [('C19', ['C19.R6'], ('base/', 'helper/', 'package::'), 'the lists and counters a store / node keeps are its own: no object shared between instances, no two attributes bound to one list')],
    'C05': [('C19', ['C19.R6'], ('base/', 'package::'), 'the lists and counters a store / node keeps are its own: no object shared between instances, no two attributes bound to one list')],
    'C07': [('C01', ['C01.O7'], None, 'the protocol is enforced by the store the EDGE owns: every wrapper delegates to that store, exactly once'),
            ('C19', ['C19.R6'], ('base/', 'package::'), 'the lists and counters a store / node keeps are its own: no object shared between instances, no two attributes bound to one list')],
    'C18': [('C19', ['C19.R6'], None, 'the lists and counters a store / node keeps are its own: no object shared between instances, no two attributes bound to one list')],
    'C20': [('C01', ['C01.O0', 'C01.O1'], None, 'stores raise RuntimeError on overflow: a grant beyond capacity crashes the run'),
            ('C06', ['C06.R4'], None, 'a node that finds no granted token after its wait raises'),
            ('C07', ['C07.R7', 'C07.R8'], None, 'a swallowed protocol error lets a run go on with a lost item; a cancellation that reports failure makes the node raise'),
            ('C15', ['C15.R7', 'C15.R10'], None, 'a selector wired to the wrong side yields an out-of-range index; an edge registered twice makes the '
                                                  'nodes\' own edge-index consistency assertion fail (AssertionError escapes run())')],
}


def run(prop, project, tier, res, load_rule):
    known = report.load_known()
    home_known = {(k['property'], k['rule'], k['construct']) for k in known.get('findings', [])}
    borrowed = {}
    errors = []
    for home, rules, where, why in SUPPORT.get(prop, []):
        try:
            hres = load_rule(home).run(project, tier)
        except AnalysisError as e:
            errors.append(f'{home}: {e}')
            continue
        for rid in rules:
            if rid not in hres.rules:
                raise AnalysisError(f'supporting clause {rid} is not declared by {home}')
            new_id = f'{prop}/{rid}'
            res.rule(new_id, f'[supporting clause, decided by {home}] {hres.rules[rid]} -- needed because {why}', floor=min(1, hres.floors.get(rid, 1)))
            borrowed[new_id] = (home, where)

        def wanted(rule, construct):
            if rule not in rules or (home, rule, construct) in home_known:
                return False
            return where is None or any(w in construct for w in where)
        for (rule, construct, ctx) in sorted(hres._instances):
            if wanted(rule, construct):
                res._instances.add((f'{prop}/{rule}', construct, ctx))
        for o in hres.obligations:
            if wanted(o.rule, o.construct) and o.ok:
                res.ok(f'{prop}/{o.rule}', o.construct, o.detail, o.file, o.line)
        for f in hres.findings:
            if wanted(f.rule, f.construct):
                res.fail(f'{prop}/{f.rule}', f.construct, f.message, f.file, f.line, f.path, advisory=f.advisory)
        res.analysed_functions |= hres.analysed_functions
        res.paths += hres.paths
    if errors and not report.has_new_findings(res):
        raise AnalysisError('supporting clause(s) could not be evaluated: ' + '; '.join(errors))
    for e in errors:
        print(f'ANALYSIS-NOTE property={prop} supporting clause not evaluated: {e}')
    if borrowed:
        res.stats['supporting_clauses'] = {k: {'home': h, 'where': list(w) if w else None} for k, (h, w) in borrowed.items()}
