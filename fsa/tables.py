"""Slot tables: which classes are stores / edges / nodes, and the role of each list attribute.

The tables are *filled from the repository* on every run (classes are discovered by shape, roles are
the repo's own attribute names and are validated against ``__init__``), never frozen source text.
A missing slot is an AnalysisError (exit 2).
"""
from __future__ import annotations

import ast
from dataclasses import dataclass, field
from typing import Dict, List, Optional, Set

from .model import AnalysisError, ClassInfo, ClassKey, FuncInfo, Project, self_attr, walk_no_nested

ROLE_LISTS = ['reserve_put_queue', 'reserve_get_queue', 'reservations_put', 'reservations_get', 'reserved_events']
OPT_LISTS = ['reserved_items', 'ready_items']
RP, RG, RE, RI = 'reservations_put', 'reservations_get', 'reserved_events', 'reserved_items'
QP, QG = 'reserve_put_queue', 'reserve_get_queue'
STORE_API = ['reserve_put', 'reserve_get', 'put', 'get', 'reserve_put_cancel', 'reserve_get_cancel']
STORE_INTERNAL = ['_trigger_reserve_put', '_trigger_reserve_get', '_do_reserve_put', '_do_reserve_get', '_do_put',
                  '_do_get', '_trigger_put', '_trigger_get']
TRIGGERS = ('_trigger_reserve_put', '_trigger_reserve_get')
LEVEL_UPDATER = '_update_time_averaged_level'
MUT = {'append': +1, 'insert': +1, 'pop': -1, 'remove': -1}

# Expected store classes on the pinned tree (floor: fewer ⇒ exit 2; more are analysed too).
EXPECTED_STORES = 8
EXPECTED_EDGES = 4     # Buffer, Fleet, ConveyorBelt x2
EXPECTED_NODES = 5     # Source, Sink, Machine, Splitter, Combiner


@dataclass
class StoreInfo:
    ci: ClassInfo
    methods: Dict[str, FuncInfo]
    lists: List[str]                 # all tracked list attributes of this class
    holders: List[str]               # H: lists that hold items
    avail: str                       # A: list the get-grant compares against
    has_ri: bool
    has_level: bool
    process_roots: List[str]         # generator methods spawned with env.process
    wraps: bool                      # element stored is (item, delay) tuple and unwrapped with [0]

    @property
    def label(self):
        return self.ci.label

    @property
    def short(self):
        return f'{self.ci.module}::{self.ci.name}'


def _is_stub(fi: FuncInfo) -> bool:
    """body is only a docstring / pass / `raise NotImplementedError`: an abstract hook, to be supplied by a subclass"""
    body = [s_ for s_ in fi.node.body if not (isinstance(s_, ast.Expr) and isinstance(s_.value, ast.Constant))]
    if not body:
        return True
    if len(body) == 1 and isinstance(body[0], ast.Pass):
        return True
    return len(body) == 1 and isinstance(body[0], ast.Raise) and 'NotImplementedError' in ast.unparse(body[0])


STORE_PROTOCOL = ['reserve_put', 'reserve_get', 'put', 'get', 'reserve_put_cancel', 'reserve_get_cancel', '_trigger_reserve_put', '_trigger_reserve_get',
                  '_do_reserve_put', '_do_reserve_get', '_do_put', '_do_get']


def is_store_class(p: Project, ci: ClassInfo) -> bool:
    m = p.methods(ci.key)
    if not ('reserve_put' in m and 'reserve_get' in m and any('Store' in e for e in p.external_bases(ci.key))):
        return False
    # An abstract base of the store family (template methods, hooks left to subclasses) is analysed through its concrete subclasses, with their
    # overrides in place - never on its own.  Abstract = it has package-internal subclasses and part of the protocol is missing or a stub.
    has_sub = any(ci.key in [b.key for b in p.mro(c.key)[1:]] for c in p.classes.values() if c.key != ci.key)
    if has_sub and any(n not in m or _is_stub(m[n]) for n in STORE_PROTOCOL):
        return False
    return True


def list_literal_inits(p: Project, key: ClassKey) -> Set[str]:
    out = set()
    for attr, sites in p.self_attr_sites(key).items():
        for fi, val, _ in sites:
            if fi.name == '__init__' and isinstance(val, ast.List) and not val.elts:
                out.add(attr)
    return out


def spawned_self_methods(fn: ast.FunctionDef) -> Set[str]:
    out = set()
    for n in walk_no_nested(fn):
        if isinstance(n, ast.Call) and isinstance(n.func, ast.Attribute) and n.func.attr == 'process' and n.args:
            a = n.args[0]
            if isinstance(a, ast.Call) and self_attr(a.func):
                out.add(a.func.attr)
    return out


def infer_holders(p: Project, key: ClassKey, methods: Dict[str, FuncInfo], lists: Set[str]) -> List[str]:
    """Least set containing every list that receives the `item` parameter of _do_put, or an element
    removed (pop/remove result, possibly subscripted) from a holding list."""
    H: Set[str] = set()
    dp = methods.get('_do_put')
    if dp is None:
        raise AnalysisError(f'{key}: _do_put missing')
    for ci in p.mro(key):          # an override may delegate to super()._do_put
        dpi = ci.methods.get('_do_put')
        if dpi is None:
            continue
        params = [a.arg for a in dpi.node.args.args]
        item_param = params[2] if len(params) > 2 else None
        for n in walk_no_nested(dpi.node):
            if isinstance(n, ast.Call) and isinstance(n.func, ast.Attribute) and n.func.attr in ('append', 'insert'):
                L = self_attr(n.func.value)
                if L in lists and any(isinstance(x, ast.Name) and x.id == item_param for a in n.args for x in ast.walk(a)):
                    H.add(L)
    if 'items' in lists or p.has_member(key, 'items'):
        pass
    changed = True
    while changed:
        changed = False
        for fi in methods.values():
            removed_vars: Dict[str, str] = {}
            for n in walk_no_nested(fi.node):
                if isinstance(n, ast.Assign) and isinstance(n.value, ast.Call) and isinstance(n.value.func, ast.Attribute) \
                        and n.value.func.attr in ('pop',):
                    L = self_attr(n.value.func.value)
                    if L in H and len(n.targets) == 1 and isinstance(n.targets[0], ast.Name):
                        removed_vars[n.targets[0].id] = L
            for n in walk_no_nested(fi.node):
                if isinstance(n, ast.Call) and isinstance(n.func, ast.Attribute) and n.func.attr in ('append', 'insert'):
                    L = self_attr(n.func.value)
                    if L and L not in H and (L in lists or L == 'items'):
                        for a in n.args:
                            base = a
                            while isinstance(base, ast.Subscript):
                                base = base.value
                            if isinstance(base, ast.Name) and base.id in removed_vars:
                                H.add(L)
                                changed = True
    return sorted(H)


def discover_stores(p: Project) -> List[StoreInfo]:
    out = []
    for ci in p.classes.values():
        if not is_store_class(p, ci):
            continue
        methods = p.methods(ci.key)
        for name in STORE_API + ['_trigger_reserve_put', '_trigger_reserve_get', '_do_reserve_put', '_do_reserve_get',
                                 '_do_put', '_do_get']:
            if name not in methods:
                raise AnalysisError(f'anchor vanished: {ci.label}.{name}')
        inits = list_literal_inits(p, ci.key)
        for L in ROLE_LISTS:
            if L not in inits:
                raise AnalysisError(f'{ci.label}: role list self.{L} is not initialised to [] in __init__')
        lists = set(ROLE_LISTS) | {L for L in OPT_LISTS if L in inits} | {'items'}
        # available list: the list whose len the get-grant compares with len(reservations_get)
        avail = None
        for n in walk_no_nested(methods['_do_reserve_get'].node):
            if isinstance(n, ast.Compare):
                names = [self_attr(x.args[0]) for x in ast.walk(n)
                         if isinstance(x, ast.Call) and isinstance(x.func, ast.Name) and x.func.id == 'len' and x.args]
                if RG in names:
                    for nm in names:
                        if nm and nm != RG and nm in lists:
                            avail = nm
        if avail is None:
            raise AnalysisError(f'{ci.label}: cannot determine the available list from _do_reserve_get')
        # holding lists: inferred by value flow from put, plus the available list (get hands its elements out)
        H = sorted(set(infer_holders(p, ci.key, methods, lists)) | {avail})
        if 'items' not in H:
            raise AnalysisError(f'{ci.label}: holding-list inference did not find items (got {H})')
        roots = set()
        for c in p.mro(ci.key):
            for fi in c.methods.values():
                roots |= spawned_self_methods(fi.node)
        roots = sorted(r for r in roots if r in methods)     # generator or not: a spawned non-generator is judged by the rules
        wraps = False
        mv = methods.get('move_to_ready_items')
        if mv:
            for n in walk_no_nested(mv.node):
                if isinstance(n, ast.Call) and isinstance(n.func, ast.Attribute) and n.func.attr == 'append' \
                        and self_attr(n.func.value) == 'ready_items' and n.args and isinstance(n.args[0], ast.Subscript):
                    wraps = True
        out.append(StoreInfo(ci, methods, sorted(lists), H, avail, RI in inits, LEVEL_UPDATER in methods, roots, wraps))
    out.sort(key=lambda s: (s.ci.module, s.ci.name))
    if len(out) < EXPECTED_STORES:
        raise AnalysisError(f'only {len(out)} store classes found (floor {EXPECTED_STORES})')
    return out


# ---------------------------------------------------------------------------- edges and nodes
def find_base(p: Project, name: str, module_hint: str) -> ClassInfo:
    for ci in p.classes.values():
        if ci.name == name and ci.module == module_hint:
            return ci
    raise AnalysisError(f'anchor vanished: class {module_hint}::{name}')


def edge_classes(p: Project) -> List[ClassInfo]:
    base = find_base(p, 'Edge', 'edges/edge.py')
    subs = sorted(p.subclasses(base.key), key=lambda c: (c.module, c.name))
    if len(subs) < EXPECTED_EDGES:
        raise AnalysisError(f'only {len(subs)} Edge subclasses found (floor {EXPECTED_EDGES})')
    return subs


def node_classes(p: Project) -> List[ClassInfo]:
    base = find_base(p, 'Node', 'nodes/node.py')
    subs = sorted(p.subclasses(base.key), key=lambda c: (c.module, c.name))
    if len(subs) < EXPECTED_NODES:
        raise AnalysisError(f'only {len(subs)} Node subclasses found (floor {EXPECTED_NODES})')
    return subs


def edge_store_attr(p: Project, ci: ClassInfo) -> (str, List[ClassKey]):
    """The attribute through which an Edge subclass reaches its store, and the store classes built there."""
    stores = {s.ci.key for s in discover_stores(p)}
    for attr in ('inbuiltstore', 'belt'):
        ks = p.attr_class(ci.key, attr)
        ks = [k for k in ks if k in stores]
        if ks:
            return attr, ks
    raise AnalysisError(f'{ci.label}: no store attribute found')


def process_roots(p: Project, ci: ClassInfo) -> List[FuncInfo]:
    """Generator methods of a class that are handed to env.process(...) somewhere in the hierarchy."""
    methods = p.methods(ci.key)
    names = set()
    for c in p.mro(ci.key):
        for fi in c.methods.values():
            names |= spawned_self_methods(fi.node)
    return [methods[n] for n in sorted(names) if n in methods]
