"""Linear-resource typestate over path summaries of node processes.

Three resources: reservation tokens (C10, C06.R4, C16), flow items (C03, C09, C16) and worker slots (C08).
The analysis understands the repository's token idioms
    L = [e.reserve_X() for e in edges] ; yield any_of(L) ; c = next((t for t in L if t.triggered), None) ;
    (L.remove(c))? ; for t in L: [if t is not c:] <store>.reserve_X_cancel(t) ; edge.X(c, ...)
    tok = e.reserve_X() ; yield tok ; e.X(tok, ...)
    L.append(e.reserve_get()) ... while len(L) > 0: c = next(...) ; i = L.index(c) ; e.get(c) ; L.pop(i)
Anything else that touches a token is reported as an unrecognised shape (never silently accepted).
"""
from __future__ import annotations

from dataclasses import dataclass, field
from typing import Dict, List, Optional

from . import paths

USE_OF = {'reserve_put': 'put', 'reserve_get': 'get'}
CANCEL_OF = {'reserve_put': 'reserve_put_cancel', 'reserve_get': 'reserve_get_cancel'}


@dataclass
class Tok:
    kind: str                  # reserve_put / reserve_get
    ev: object                 # creating event
    is_list: bool
    value: tuple
    chosen: Optional[tuple] = None
    chosen_removed: bool = False
    rest_cancelled: bool = False
    used: int = 0
    cancelled: int = 0
    waited: bool = False
    in_local: Optional[str] = None
    problems: List[str] = field(default_factory=list)
    use_ev: object = None


@dataclass
class TokenReport:
    toks: List[Tok]
    local_lists: Dict[str, dict]
    problems: List[tuple]       # (event, message)


def same(a, b) -> bool:
    return a is not None and b is not None and a == b


def analyse_tokens(pa: paths.Path) -> TokenReport:
    toks: List[Tok] = []
    by_val: Dict[tuple, Tok] = {}
    local: Dict[str, dict] = {}        # local list name -> {'kind', 'added', 'used', 'popped', 'ev'}
    problems = []
    for e in pa.events:
        k = e.kind
        if k == 'pcall' and e.name in USE_OF:
            t = Tok(e.name, e, e.over is not None, e.result)
            toks.append(t)
            by_val[e.result] = t
        elif k == 'lop':
            lv = e.d.get('listval')
            if e.op == 'append' and e.args and e.args[0] in by_val and not by_val[e.args[0]].is_list:
                t = by_val[e.args[0]]
                t.in_local = e.list
                d = local.setdefault(e.list, {'kind': t.kind, 'added': 0, 'used': 0, 'popped': 0, 'ev': e, 'chosen': None})
                d['added'] += 1
            elif e.op == 'remove' and lv in by_val and by_val[lv].is_list:
                t = by_val[lv]
                if e.args and same(e.args[0], t.chosen):
                    t.chosen_removed = True
                else:
                    problems.append((e, f'`{e.list}.remove(...)` removes something other than the chosen token'))
            elif e.op == 'pop' and lv in by_val and by_val[lv].is_list:
                t = by_val[lv]
                idx = e.args[0] if e.args else None
                if idx is not None and idx[0] == 'lindex' and same(idx[2], t.chosen):
                    t.chosen_removed = True
                else:
                    problems.append((e, f'`{e.list}.pop(...)` removes something other than the chosen token'))
            elif e.op == 'pop' and e.list in local:
                d = local[e.list]
                idx = e.args[0] if e.args else None
                if idx is not None and idx[0] == 'lindex' and idx[1] == e.list and same(idx[2], d['chosen']):
                    d['popped'] += 1
                else:
                    problems.append((e, f'`{e.list}.pop(...)` does not remove the token just consumed'))
        elif k == 'lookup' and e.outcome == 'found':
            sv = e.d.get('src_val')
            if sv in by_val and by_val[sv].is_list:
                t = by_val[sv]
                t.chosen = e.value
                t.pred = e.pred
            else:
                for name, d in local.items():
                    if e.src == name:
                        d['chosen'] = e.value
        elif k == 'cancel_loop':
            iv = e.iter_val
            if iv in by_val and by_val[iv].is_list:
                t = by_val[iv]
                if e.method != CANCEL_OF[t.kind]:
                    problems.append((e, f'{t.kind} tokens cancelled with {e.method}'))
                elif e.guard == 'except' and same(e.except_val, t.chosen):
                    t.rest_cancelled = True
                elif e.guard == 'all' and t.chosen_removed:
                    t.rest_cancelled = True
                elif e.guard == 'all' and t.chosen is None:
                    t.rest_cancelled = True
                    t.cancelled += 1
                elif e.guard == 'all':
                    t.rest_cancelled = True
                    t.cancelled += 1       # the chosen token is cancelled as well
                else:
                    problems.append((e, 'cancel loop is guarded by something other than "not the chosen token": '
                                        'some reservations are left behind'))
        elif k == 'pcall' and e.name in ('put', 'get'):
            a0 = e.args[0] if e.args else None
            hit = None
            for t in toks:
                if t.is_list and same(a0, t.chosen):
                    hit = t
                elif not t.is_list and same(a0, t.value):
                    hit = t
            if hit is not None:
                if USE_OF[hit.kind] != e.name:
                    problems.append((e, f'{hit.kind} token used for {e.name}'))
                hit.used += 1
                hit.use_ev = e
            else:
                for name, d in local.items():
                    if same(a0, d['chosen']) and USE_OF[d['kind']] == e.name:
                        d['used'] += 1
                        hit = d
                if hit is None and a0 is not None and a0[0] in ('yielded',):
                    # `pe = yield tok ; edge.put(pe, item)`: the value of a plain event is None, not the token
                    cand = [t for t in toks if not t.is_list and t.waited and t.used + t.cancelled == 0 and USE_OF[t.kind] == e.name]
                    msg = (f'`{e.name}` is given the value of the `yield` expression (None for a plain event) instead of the '
                           f'reservation token: the granted reservation is never used')
                    if cand:
                        cand[-1].problems.append(msg)
                    else:
                        problems.append((e, msg))
        elif k == 'pcall' and e.name in CANCEL_OF.values():
            a0 = e.args[0] if e.args else None
            for t in toks:
                if not t.is_list and same(a0, t.value):
                    t.cancelled += 1
        elif k == 'yield':
            v = e.value
            for t in toks:
                if not t.is_list and same(v, t.value):
                    t.waited = True
            # any_of(list) is an xcall whose first argument is the token list
    return TokenReport(toks, local, problems)


def token_end_issues(rep: TokenReport) -> List[tuple]:
    """Issues at the end of a non-raising path: (token event, message)."""
    out = list(rep.problems)
    for t in rep.toks:
        if t.in_local is not None:
            continue
        if t.is_list:
            if t.chosen is None:
                if t.cancelled == 0:
                    out.append((t.ev, f'{t.kind} tokens created on all edges but none is chosen, used or cancelled'))
                continue
            if t.used != 1 - (1 if t.cancelled else 0) or (t.cancelled and t.used):
                if t.cancelled and t.used:
                    out.append((t.ev, 'the chosen token is cancelled by the cancel loop and then used'))
                elif t.used == 0:
                    out.append((t.ev, f'the chosen {t.kind} token is never used ({USE_OF[t.kind]} missing on this path)'))
                elif t.used > 1:
                    out.append((t.ev, f'the chosen {t.kind} token is used {t.used} times'))
            if not t.rest_cancelled:
                out.append((t.ev, f'the {t.kind} tokens of the edges not chosen are never cancelled (reservations left behind)'))
        else:
            n = t.used + t.cancelled
            if t.problems:
                out.append((t.ev, t.problems[0]))
            elif n == 0:
                out.append((t.ev, f'{t.kind} token is neither used nor cancelled on this path (reservation left behind)'))
            elif n > 1:
                out.append((t.ev, f'{t.kind} token is consumed {n} times'))
    for name, d in rep.local_lists.items():
        if d['added'] != d['used'] or d['added'] != d['popped']:
            out.append((d['ev'], f'token list `{name}`: {d["added"]} token(s) added, {d["used"]} used, {d["popped"]} removed from the list'))
    return out


# ------------------------------------------------------------------------------------------ items
@dataclass
class ItemRec:
    value: tuple
    ev: object
    origin: str
    disposed: int = 0
    how: List[str] = field(default_factory=list)


def analyse_items(pa: paths.Path, owned_params=(), discard_counter='num_item_discarded', receive_counter='num_item_received'):
    """Ownership of flow items along one path.  Returns (items, discards, problems)."""
    items: List[ItemRec] = []
    by_val: Dict[tuple, ItemRec] = {}
    problems = []
    discards = []
    receives = []
    for pn in owned_params:
        rec = ItemRec(('param', pn), None, f'parameter {pn}')
        items.append(rec)
        by_val[rec.value] = rec

    def own(v, e, origin):
        if v in by_val:
            return
        rec = ItemRec(v, e, origin)
        items.append(rec)
        by_val[v] = rec

    for e in pa.events:
        k = e.kind
        if k == 'xcall' and e.name in ('Item', 'Pallet'):
            pass    # value known only at the assignment; constructor results are 'callres' values
        if k == 'pcall' and e.name == 'get':
            own(e.result, e, f'{e.recv}.get')
        elif k == 'pcall' and e.name == 'put':
            v = e.args[1] if len(e.args) > 1 else None
            if v in by_val:
                by_val[v].disposed += 1
                by_val[v].how.append(f'put@{e.line}')
            elif v is not None and v[0] in ('callres',) and v[1] in ('Item', 'Pallet'):
                own(v, e, 'constructor')
                by_val[v].disposed += 1
                by_val[v].how.append(f'put@{e.line}')
        elif k == 'pcall' and e.name == 'add_item':
            v = e.args[0] if e.args else None
            if v in by_val:
                by_val[v].disposed += 1
                by_val[v].how.append(f'add_item@{e.line}')
        elif k == 'spawn':
            for v in e.args:
                if v in by_val:
                    by_val[v].disposed += 1
                    by_val[v].how.append(f'spawn {e.func}@{e.line}')
                elif v is not None and v[0] == 'callres' and v[1] in ('Item', 'Pallet'):
                    own(v, e, 'constructor')
                    by_val[v].disposed += 1
                    by_val[v].how.append(f'spawn {e.func}@{e.line}')
        elif k == 'xcall' and e.name.endswith('.items.pop'):
            pass
        elif k == 'setitem' and e.aug and e.aug[0] == 'Add':
            if discard_counter in e.target:
                discards.append(e)
            if receive_counter in e.target:
                receives.append(e)
    return items, discards, receives, problems
