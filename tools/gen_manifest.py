#!/usr/bin/env python3
"""Regenerate /verif/MANIFEST.json from the per-property table below and the rule modules present."""
import importlib
import json
import pathlib
import sys

ROOT = pathlib.Path(__file__).resolve().parent.parent
sys.path.insert(0, str(ROOT))

META = {
    'C01': ('proof', 'ast path summaries + linear (Fourier-Motzkin) induction over store list lengths; ownership / delegation scans',
            'Inductive invariant Σ held + granted-space ≤ capacity proved site-wise over all 8 store classes (every statement that can '
            'change it, on every path, loop-agnostic); store lists only mutated by their owner; edges delegate once and pass the validated '
            'capacity; no failure exit after a reservation is consumed. Holds for every history because the obligations are per statement, not per run.',
            'DESIGN.md §4 C01'),
    'C02': ('other', 'ast path summaries: symbolic object flow (multiset neutrality), binder/cancel index algebra, lock-step length deltas, closed mutator vocabulary of the holding/binding lists, no failure exit after an item was removed, identity equality of the flow-item classes (no __eq__ / dataclass)',
            'Necessary structural conditions of item conservation and distinct binding at store level (multiset neutrality of every entry point, '
            'wrap/unwrap agreement, binding discipline preserved by every mutator, lock-step of the binding lists). Decides those clauses, not the whole behaviour.',
            'DESIGN.md §4 C02'),
    'C03': ('other', 'linear-ownership typestate of flow items over node process paths + counter pairing',
            'Every item obtained by a node process is transferred exactly once on every path; counters are paired with the transfer they count. '
            'Does not decide the liveness half.', 'DESIGN.md §4 C03'),
    'C04': ('other', 'ast path summaries: potential-based wake-up pairing (rise of free space / available items must be followed by the matching trigger); must-reach rule on the trigger functions (every completing path reaches the service loop unless the path conditions imply an empty queue)',
            'Every net rise of free-unreserved space or available-unreserved items inside an atomic segment is followed by the matching trigger call; '
            'service-loop shape; grant predicate equivalent to availability; every accepted put of a time-gated store arms its own re-trigger timer. Decides the pairing, not timer-driven gates.', 'DESIGN.md §4 C04'),
    'C05': ('proof', 'ast shape rules: append + stable ascending sort on the request own priority (or bisect_right insertion), head-first service, order-preserving removals; a request served without queueing is accepted only when the path conditions imply an empty queue; identity equality of the request classes',
            'With list.sort stability the rules imply priority-then-FCFS service for the reservation queues and the priority request store.',
            'DESIGN.md §4 C05'),
    'C06': ('other', 'binder / cancellation index algebra (linear normal forms), data dependence of the bound item on the filter match, cancel-all-but-chosen typestate in nodes, selection predicate of the chosen token, constructor wiring of the buffer mode',
            'Necessary conditions of FIFO/LIFO/filter discipline: the binder picks the first (last) unreserved item, a cancellation re-inserts right after '
            '(below) the reserved block, the filter store binds the matched item, nodes cancel every token except the first triggered.', 'DESIGN.md §4 C06'),
    'C07': ('proof', 'ast path summaries: validation dominates mutation; failure paths are effect-free and raise RuntimeError; success consumes the token; forbidden-construct scan for swallowed errors (return in finally, non-re-raising handler around a protocol call); constant-True result contract of put / cancel on every completing path',
            'For put/get/cancel of all 8 store classes: look-up of (token, active process) precedes every mutation, a failed look-up raises RuntimeError '
            'with no prior side effect, success removes the token. Sufficient for every misuse the statement enumerates.', 'DESIGN.md §4 C07'),
    'C08': ('other', 'path typestate of worker slots; data flow of the drawn processing delay to exactly one timeout',
            'Slot requested before pull and released on every exit; delay drawn once and reaching exactly one timeout; no stray waits between pull and push. '
            'Exact residence times are not decided.', 'DESIGN.md §4 C08'),
    'C09': ('other', 'path partition on the blocking flag: no discard on blocking paths, reserve dominated by can_put on non-blocking paths, definite assignment of the decision variable, loop-exit analysis of the first-available scan (exhausted vs. break), sibling agreement of the blocking-flag tests (truth, never identity)',
            'Necessary conditions only; same-instant races for the last slot are not decided.', 'DESIGN.md §4 C09'),
    'C10': ('other', 'reservation-token typestate (used xor cancelled), cancel-loop completeness (guard, iterable not edited, result test not inverted), suspension-point whitelist, who-may-call rule for item transfers (edge.get / edge.put, never the store handle)',
            'Every reservation token created by a node is used or cancelled exactly once on every path; no stray timed waits in pull/push regions. '
            'The instant-by-instant observer is not decided.', 'DESIGN.md §4 C10'),
    'C11': ('other', 'linear normal-form equivalence of can_put/can_get/occupancy with the store predicates; dominance of ready-list append by the item own delay timer; non-length conjuncts of the grant compared with what the query tests; path rule on get_delay (one fresh draw per call)',
            'can_put ≡ grant predicate, can_get ≡ |RG| < |A|, occupancy ≡ Σ held, ready append dominated by the timer of that item, delay drawn once.',
            'DESIGN.md §4 C11'),
    'C12': ('other', 'control / data dependence of the belt put-grant on the entry time of the last entered item and the pace of the belt (dependence closure of opaque values); normalised product form of the travel delay; symbolic sum of the timed waits on undisturbed paths; grant count per sweep of the belt queue (grant function inlined, two iterations); constructor wiring of speed / slot delay; dependence of the spacing test on the interruption time of the last item; value flow of the Source item_length into every created flow item (path rule + constructor-chain argument binding)',
            'ONLY the structural clauses of C12: the spacing gate exists and refers to the last entered item (and an empty belt admits one entry per instant), the travel '
            'delay follows the documented formula, is stamped, stored with the item, identical for all items and waited in two phases that add up to it. '
            'Order of exit, actual spacing and travel times under interrupts are real-valued timer arithmetic and are NOT decided (see DESIGN.md §6).',
            'DESIGN.md §4 C12, §6'),
    'C13': ('other', 'wait-without-signal scan; path rule with a symbolic clock: after an Interrupt the next travel wait lasts d − (t1 − t0) and follows a resume wait; truth-table check of the state dispatch; value/atom based accumulation gate; who-may-interrupt; sibling agreement of the stall-delay conversion; must-reach rule on the cancellation sweep of delayed interrupts; stale-event read; constructor wiring of the accumulating flag; who-may-call rule for set_conveyor_state (the belt process only)',
            'Structural necessary conditions of stall handling; kinematics are not decided.', 'DESIGN.md §4 C13'),
    'C14': ('other', 'control dependence of the capacity trigger, activation wait-set shape, two transit timeouts dominate the move, alias analysis of the batch iterable, batch fixed before the transit waits, exactly one suspension per activation cycle, departure on every path on which items wait after the wake-up, constructor wiring edge → store (arguments bound against the store signature and resolved through single-valued attributes / locals)',
            'Structural necessary conditions of batch delivery; batch boundaries in time are not decided.', 'DESIGN.md §4 C14'),
    'C15': ('other', 'selector-call counting per path, who-may-consult scan of the user policy, recorded-vs-used index data flow, range-check dominance, generator update normal form, wiring of policy names, value evaluation of the stored policy for representative arguments, fresh selector object per get_edge_selector call, membership test dominating every registration of an edge in a node edge list',
            'Selector consulted once per item, recorded index = used index, range check dominates use, round-robin successor is (i+1) mod n.',
            'DESIGN.md §4 C15'),
    'C16': ('other', 'loop-bound flow recipe → reservations, counted drain loop invariant, pallet-last emission order, path rule over the pallet container operations, single-writer rule for the recipe vector',
            'Recipe count = reservation count = add_item count; pallet from edge 0; splitter drains then emits the pallet last.', 'DESIGN.md §4 C16'),
    'C17': ('other', 'symbolic effect of the accounting functions (bucket[old state] += now − old stamp; tracked cells), single writer of state, stamp-before-first-wait path rule, path-wise partition check of the Machine state groups over sign classes with the meaning of each state name, thread-state typestate (refresh after change, BLOCKED before a wait for room)',
            'Structural necessary conditions of state-time accounting; equality with time actually spent is not decided.', 'DESIGN.md §4 C17'),
    'C18': ('other', 'level-updater pairing after every net occupancy change; polynomial identity of the updater effect (W\' = W + N·(now − T), T\' = now, N\' = Σ held); counter/event pairing with no suspension point in between; timestamp sources; unconditional entry / exit stamps of the flow items',
            'Structural necessary conditions of truthful statistics; numerical equality with the true integral is not decided.', 'DESIGN.md §4 C18'),
    'C19': ('other', 'forbidden-construct / taint scan (set iteration incl. dict-view algebra, id/hash/address-repr ordering incl. through attributes, unseeded entropy, wall clock, kernel clock writes) and shared-state analysis (module/class-level mutable objects mutated, aliased or shallow-copied into instance state) with canaries',
            'Absence of the constructs that make runs irreproducible; run-to-run equality itself is not decided.', 'DESIGN.md §4 C19'),
    'C20': ('other', 'attribute-existence resolution, interface/dispatch exhaustiveness, progress of process cycles, documented validations judged by abstract evaluation over representative configurations, one-shot event discipline, first-iteration None dereference, re-arming of consumed events',
            'Structural necessary conditions of crash/livelock freedom; absence of all run-time exceptions is not decided.', 'DESIGN.md §4 C20'),
}

NOTE = ('All rules run on the package after a semantics-preserving normalisation (fsa/flatten.py + fsa/normalise.py, DESIGN §3.2a: helper base classes flattened, helpers inlined, constants propagated). Trusted base: CPython ast; SimPy 4.1 kernel semantics (cooperative processes, succeed() raises if already triggered); list.sort stability; '
        'the fsa engine itself (firing/silent variants in the thorough tier). Static analysis only: nothing in a check imports or runs FactorySimPy.')

NA = {}


def borrowed(prop):
    from fsa import support
    rows = support.SUPPORT.get(prop, [])
    if not rows:
        return ''
    return '; supporting clauses decided by other rule modules on the same parse and reported under this id (fsa/support.py, DESIGN §4): ' + \
        ', '.join(f'{"/".join(rules)}' + (f' [{", ".join(where)}]' if where else '') for _home, rules, where, _why in rows)


def implemented(prop):
    src = (ROOT / 'fsa' / 'rules' / f'{prop.lower()}.py').read_text()
    return 'not implemented yet (fail closed)' not in src


def main():
    checks = []
    na = [{'property_id': k, 'reason': v} for k, v in NA.items()]
    for prop, (level, technique, text, ref) in sorted(META.items()):
        if not implemented(prop):
            na.append({'property_id': prop, 'reason': 'check under construction in this revision (fail-closed stub exits 2); not claimed until its rules are implemented'})
            continue
        checks.append({
            'property_id': prop,
            'quick_cmd': f'./check {prop} --tier quick',
            'thorough_cmd': f'./check {prop} --tier thorough',
            'evidence_file': f'/verif/evidence/{prop}.json',
            'replay_cmd_template': f'./check {prop} --replay {{path}}',
            'engine': 'fsa',
            'level_claimed': {'category': level, 'text': text, 'design_ref': ref},
            'level_note': NOTE,
            'technique': technique + borrowed(prop),
        })
    man = {
        'version': 1,
        'setup_cmd': './check selfcheck',
        'hooks': {
            'guard': 'FACTORYSIMPY_VERIF',
            'enable': 'none needed: the checks read /repo/src/factorysimpy as source text (no hooks, no instrumentation)',
            'baseline_off_cmd': 'cd /repo && /venv/bin/python -m pytest -q -p no:cacheprovider --timeout=900 --continue-on-collection-errors',
            'source_commits': [],
            'add_only': True,
        },
        'engines': [{'name': 'fsa', 'path': '/verif/fsa', 'serves_properties': [c['property_id'] for c in checks],
                     'kind_free_text': 'repo-specific static analysis on the Python ast: path summaries, linear length arithmetic, typestate, call-graph scans'}],
        'checks': checks,
        'not_applicable': sorted(na, key=lambda x: x['property_id']),
        'notes': 'Exit 0 held / 1 VIOLATION / 2 ANALYSIS-ERROR. Known findings: /verif/known_findings.json. fix: commits in /repo: afdf4ac (D1), 5e5f599 (D5), dbf5b78 (D8), 3d4836f (D20). Seeded changes: /verif/seeded/ (tools/rerun_seeds.py).',
    }
    (ROOT / 'MANIFEST.json').write_text(json.dumps(man, indent=1) + '\n')
    print(f'MANIFEST.json: {len(checks)} checks, {len(na)} not_applicable')


if __name__ == '__main__':
    main()
