#!/usr/bin/env python3
"""Maintain /verif/known_findings.json (design-time tool; checks never write this file)."""
import json, sys, pathlib
P = pathlib.Path(__file__).resolve().parent.parent / 'known_findings.json'
def add(prop, rule, construct, what, witness, disposition, defect):
    d = json.loads(P.read_text())
    key = (prop, rule, construct)
    d['findings'] = [f for f in d['findings'] if (f['property'], f['rule'], f['construct']) != key]
    d['findings'].append({'property': prop, 'rule': rule, 'construct': construct, 'defect': defect, 'what': what,
                          'witness': witness, 'disposition': disposition})
    d['findings'].sort(key=lambda f: (f['property'], f['rule'], f['construct']))
    P.write_text(json.dumps(d, indent=1, ensure_ascii=False) + '\n')
if __name__ == '__main__':
    add(*sys.argv[1:8])
