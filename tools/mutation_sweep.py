#!/usr/bin/env python3
"""tools/mutation_sweep.py [--n N] [--seed S] [--files glob ...] [--suite]

Blind-spot search for the checkers (not part of any registered check): generate N random small mutants of the package (statement
deletion, negated guard, comparison-operator change, list swap, off-by-one constant, += / -= swap), run every rule module on each
(in-memory overlay, nothing is written to /repo) and report which mutants no check notices.  With --suite the surviving mutants are
also run through the repository's test suite in a scratch copy (outside /repo and /verif) so that survivors the suite catches can be
set aside.  Survivors have to be triaged by hand: equivalent mutant, irrelevant to the 20 properties, or a genuine miss.
"""
import argparse
import ast
import copy
import fnmatch
import json
import multiprocessing as mp
import os
import pathlib
import random
import shutil
import subprocess
import sys
import tempfile

ROOT = pathlib.Path(__file__).resolve().parent.parent
sys.path.insert(0, str(ROOT))
os.environ.setdefault('FSA_EVIDENCE_DIR', tempfile.mkdtemp(prefix='fsa-mut-'))

from fsa.model import Project, AnalysisError      # noqa: E402
from fsa import cli                                 # noqa: E402

PROPS = cli.PROPS
REPO = '/repo'


def is_print(st):
    return isinstance(st, ast.Expr) and isinstance(st.value, ast.Call) and isinstance(st.value.func, ast.Name) and st.value.func.id == 'print'


def candidates(tree):
    """list of (kind, description, mutator(tree_copy_node_path))"""
    out = []
    for fn in ast.walk(tree):
        if not isinstance(fn, ast.FunctionDef) or fn.name in ('__repr__', '__str__'):
            continue
        for n in ast.walk(fn):
            if isinstance(n, ast.Expr) and isinstance(n.value, ast.Call) and not is_print(n):
                out.append(('delete-call', fn.name, n))
            elif isinstance(n, ast.If):
                out.append(('negate-if', fn.name, n))
            elif isinstance(n, ast.Compare) and len(n.ops) == 1 and isinstance(n.ops[0], (ast.Lt, ast.LtE, ast.Gt, ast.GtE, ast.Eq, ast.NotEq)):
                out.append(('cmp-op', fn.name, n))
            elif isinstance(n, ast.AugAssign) and isinstance(n.op, (ast.Add, ast.Sub)):
                out.append(('aug-op', fn.name, n))
            elif isinstance(n, ast.Attribute) and n.attr in ('items', 'ready_items', 'reservations_put', 'reservations_get', 'reserve_put_queue', 'reserve_get_queue') \
                    and isinstance(n.ctx, ast.Load):
                out.append(('list-swap', fn.name, n))
            elif isinstance(n, ast.Constant) and n.value in (0, 1, -1) and not isinstance(n.value, bool):
                out.append(('const', fn.name, n))
            elif isinstance(n, ast.Assign) and not isinstance(n.value, ast.Constant) and len(n.targets) == 1 and isinstance(n.targets[0], ast.Attribute):
                out.append(('delete-attr-assign', fn.name, n))
    return out


SWAP = {'items': 'ready_items', 'ready_items': 'items', 'reservations_put': 'reservations_get', 'reservations_get': 'reservations_put',
        'reserve_put_queue': 'reserve_get_queue', 'reserve_get_queue': 'reserve_put_queue'}


def apply(kind, node, rng):
    if kind in ('delete-call', 'delete-attr-assign'):
        node.__class__ = ast.Pass
        node._fields = ()
        return True
    if kind == 'negate-if':
        node.test = ast.UnaryOp(op=ast.Not(), operand=node.test)
        return True
    if kind == 'cmp-op':
        m = {ast.Lt: ast.LtE, ast.LtE: ast.Lt, ast.Gt: ast.GtE, ast.GtE: ast.Gt, ast.Eq: ast.NotEq, ast.NotEq: ast.Eq}
        node.ops = [m[type(node.ops[0])]()]
        return True
    if kind == 'aug-op':
        node.op = ast.Sub() if isinstance(node.op, ast.Add) else ast.Add()
        return True
    if kind == 'list-swap':
        node.attr = SWAP[node.attr]
        return True
    if kind == 'const':
        node.value = {0: 1, 1: 0, -1: 0}[node.value]
        return True
    return False


def make_mutants(n, seed, globs):
    rng = random.Random(seed)
    p = Project(REPO, normalise=False)
    pool = []
    for rel, m in p.modules.items():
        if globs and not any(fnmatch.fnmatch(rel, g) for g in globs):
            continue
        if rel.startswith(('constructs/', 'utils/stats')):
            continue
        cs = candidates(m.tree)
        for i, (kind, fn, node) in enumerate(cs):
            pool.append((rel, i, kind, fn, node.lineno))
    rng.shuffle(pool)
    out = []
    for rel, i, kind, fn, line in pool[:n]:
        tree = copy.deepcopy(p.modules[rel].tree)
        cs = candidates(tree)
        k, f, node = cs[i]
        before = ast.unparse(node)[:100] if not isinstance(node, ast.If) else 'if ' + ast.unparse(node.test)[:90]
        if not apply(k, node, rng):
            continue
        ast.fix_missing_locations(tree)
        try:
            src = ast.unparse(tree) + '\n'
            compile(src, rel, 'exec')
        except Exception:
            continue
        out.append({'id': len(out), 'file': rel, 'func': f, 'line': line, 'kind': k, 'before': before, 'src': src})
    return out


def baseline():
    base = {}
    for prop in PROPS:
        mod = cli.load_rule(prop)
        res = mod.run(Project(REPO), 'quick')
        base[prop] = {(f.rule, f.construct) for f in res.findings if not f.advisory}
    return base


_BASE = None


def run_mutant(m):
    global _BASE
    if _BASE is None:
        _BASE = baseline()
    fired = {}
    for prop in PROPS:
        try:
            mod = cli.load_rule(prop)
            res = mod.run(Project(REPO, {m['file']: m['src']}), 'quick')
            new = [(f.rule, f.construct) for f in res.findings if not f.advisory and (f.rule, f.construct) not in _BASE[prop]]
            floors = [rid for rid, fl in res.floors.items() if res.count(rid) < fl]
            if new:
                fired[prop] = new[0][0]
            elif floors:
                fired[prop] = 'floor:' + floors[0]
        except AnalysisError as e:
            fired[prop] = 'analysis-error'
        except Exception as e:     # noqa
            fired[prop] = 'crash:' + type(e).__name__
    return m['id'], fired


def suite_passes(m, scratch):
    d = pathlib.Path(scratch) / f'm{m["id"]}'
    shutil.copytree(REPO, d, ignore=shutil.ignore_patterns('.git', '__pycache__', '*.egg-info'))
    (d / 'src' / 'factorysimpy' / m['file']).write_text(m['src'])
    out = subprocess.run(['/venv/bin/python', '-m', 'pytest', '-q', '-p', 'no:cacheprovider', '--timeout=300', '--continue-on-collection-errors'],
                         cwd=d, env=dict(os.environ, PYTHONPATH=str(d / 'src')), capture_output=True, text=True)
    shutil.rmtree(d, ignore_errors=True)
    tail = out.stdout.strip().splitlines()[-1] if out.stdout.strip() else ''
    return '70 passed' in tail, tail


def main():
    ap = argparse.ArgumentParser()
    ap.add_argument('--n', type=int, default=200)
    ap.add_argument('--seed', type=int, default=1)
    ap.add_argument('--files', nargs='*', default=[])
    ap.add_argument('--suite', action='store_true')
    ap.add_argument('--out', default='/tmp/mutation_sweep.json')
    a = ap.parse_args()
    muts = make_mutants(a.n, a.seed, a.files)
    print(f'{len(muts)} mutants')
    with mp.get_context('fork').Pool(min(16, os.cpu_count() or 1)) as pool:
        res = dict(pool.imap_unordered(run_mutant, muts, chunksize=1))
    survivors = []
    kinds = {}
    for m in muts:
        fired = res[m['id']]
        real = {k: v for k, v in fired.items() if not v.startswith(('analysis-error', 'crash', 'floor'))}
        closed = {k: v for k, v in fired.items() if k not in real}
        st = 'killed' if real else ('fail-closed' if closed else 'survived')
        kinds.setdefault(m['kind'], {'killed': 0, 'fail-closed': 0, 'survived': 0})[st] += 1
        m['status'] = st
        m['fired'] = fired
        if st != 'killed':
            survivors.append(m)
    print(json.dumps(kinds, indent=1))
    if a.suite:
        scratch = tempfile.mkdtemp(prefix='mutsuite-')
        for m in survivors:
            ok, tail = suite_passes(m, scratch)
            m['suite'] = 'passes' if ok else 'fails: ' + tail[:80]
        shutil.rmtree(scratch, ignore_errors=True)
    for m in survivors:
        print(f"{m['status']:11s} {m['file']}:{m['line']} {m['func']} [{m['kind']}] {m['before'][:90]!r}  suite={m.get('suite', '?')} {m['fired'] or ''}")
    json.dump([{k: v for k, v in m.items() if k != 'src'} for m in muts], open(a.out, 'w'), indent=1)
    n = len(muts)
    k = sum(1 for m in muts if m['status'] == 'killed')
    print(f'killed {k}/{n}, fail-closed {sum(1 for m in muts if m["status"] == "fail-closed")}, survived {sum(1 for m in muts if m["status"] == "survived")}')


if __name__ == '__main__':
    main()
