#!/usr/bin/env python3
"""tools/normalised_tree.py <repo> <outdir> [fixture-dir]: write the package *as the rules see it* (after fsa/normalise.py) to <outdir>/src/factorysimpy,
copying everything else of <repo> next to it.  Used once in a while to validate the normaliser itself: the repository's test suite and the
equivalence demos of the refactoring fixtures must behave the same on the normalised sources (translation validation; not part of any check)."""
import ast, pathlib, shutil, sys
sys.path.insert(0, str(pathlib.Path(__file__).resolve().parent.parent))
from fsa.model import Project
repo, out = pathlib.Path(sys.argv[1]), pathlib.Path(sys.argv[2])
overlay = None
if len(sys.argv) > 3:
    fx = pathlib.Path(sys.argv[3])
    overlay = {str(f.relative_to(fx)): f.read_text() for f in fx.rglob('*.py') if f.name != 'equiv_demo.py'}
if out.exists():
    shutil.rmtree(out)
shutil.copytree(repo, out, ignore=shutil.ignore_patterns('.git', '__pycache__', '*.egg-info'))
p = Project(str(repo), overlay)
for rel, m in p.modules.items():
    (out / 'src' / 'factorysimpy' / rel).write_text(ast.unparse(m.tree) + '\n')
print(p.normalisation['applied'])
