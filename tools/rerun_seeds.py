#!/usr/bin/env python3
"""Apply every /verif/seeded/<id>/patch.diff to /repo in turn (git apply ... ; git checkout -- .), run all registered quick checks against
it (16 at a time), run the demo, and refresh meta.json['detected_by_at_head'].  Prints the matrix.   usage: tools/rerun_seeds.py [seed-id ...]"""
import json, os, pathlib, subprocess, sys, tempfile, shutil
from concurrent.futures import ThreadPoolExecutor
ROOT = pathlib.Path('/verif/seeded')
PROPS = [c['property_id'] for c in json.loads(pathlib.Path('/verif/MANIFEST.json').read_text())['checks']]


def run_checks():
    tmp = tempfile.mkdtemp(prefix='fsa-ev-')
    env = dict(os.environ, FSA_EVIDENCE_DIR=tmp)

    def one(pid):
        return pid, subprocess.run(['/verif/check', pid, '--repo', '/repo'], capture_output=True, text=True, env=env).returncode
    with ThreadPoolExecutor(16) as ex:
        res = dict(ex.map(one, PROPS))
    shutil.rmtree(tmp, ignore_errors=True)
    return ' '.join(f'{k}(exit {v})' for k, v in sorted(res.items()) if v != 0) or 'none'


rows = []
only = set(sys.argv[1:])
for d in sorted(ROOT.iterdir()):
    patch = d / 'patch.diff'
    if not patch.exists() or (only and d.name not in only):
        continue
    st = subprocess.run(['git', '-C', '/repo', 'status', '--porcelain', '--untracked-files=no'], capture_output=True, text=True).stdout.strip()
    assert not st, f'/repo not clean: {st}'
    ap = subprocess.run(['git', '-C', '/repo', 'apply', '--whitespace=nowarn', str(patch)], capture_output=True, text=True)
    if ap.returncode != 0:
        rows.append((d.name, 'patch does not apply at HEAD', '', ''))
        continue
    try:
        fired = run_checks()
        try:
            demo = subprocess.run(['/venv/bin/python', str(d / 'demo.py')], capture_output=True, text=True, env={'PYTHONPATH': '/repo/src', 'PATH': '/usr/bin:/bin'}, timeout=600)
            demo_res = 'fails' if demo.returncode != 0 else 'passes'
        except subprocess.TimeoutExpired:
            demo_res = 'fails (timeout)'
    finally:
        subprocess.run(['git', '-C', '/repo', 'checkout', '--', '.'], check=True)
    meta = json.loads((d / 'meta.json').read_text())
    meta['detected_by_at_head'] = fired
    meta['demo_at_head_with_change'] = demo_res
    meta['head'] = subprocess.run(['git', '-C', '/repo', 'log', '-1', '--format=%h'], capture_output=True, text=True).stdout.strip()
    (d / 'meta.json').write_text(json.dumps(meta, indent=1) + '\n')
    rows.append((d.name, meta['property_broken'], demo_res, fired))
    print(d.name, meta['property_broken'], 'demo', demo_res, '|', fired, flush=True)
if not only:
    json.dump(rows, open('/verif/seeded/matrix.json', 'w'), indent=1)
