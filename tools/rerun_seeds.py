#!/usr/bin/env python3
"""Apply every /verif/seeded/<id>/patch.diff to /repo in turn (git apply ... ; git checkout -- .), run all registered quick checks against
it, run the demo, and refresh meta.json['detected_by_at_head'].  Prints the matrix."""
import json, pathlib, subprocess, sys
ROOT = pathlib.Path('/verif/seeded')
rows = []
for d in sorted(ROOT.iterdir()):
    patch = d / 'patch.diff'
    if not patch.exists():
        continue
    st = subprocess.run(['git', '-C', '/repo', 'status', '--porcelain', '--untracked-files=no'], capture_output=True, text=True).stdout.strip()
    assert not st, f'/repo not clean: {st}'
    ap = subprocess.run(['git', '-C', '/repo', 'apply', '--whitespace=nowarn', str(patch)], capture_output=True, text=True)
    if ap.returncode != 0:
        rows.append((d.name, 'patch does not apply at HEAD', '', ''))
        continue
    try:
        out = subprocess.run(['python3', '/verif/tools/try_seed.py', '/repo'], capture_output=True, text=True).stdout
        fired = [l for l in out.splitlines() if l.startswith('FIRED:')][0][len('FIRED: '):]
        demo = subprocess.run(['/venv/bin/python', str(d / 'demo.py')], capture_output=True, text=True, env={'PYTHONPATH': '/repo/src', 'PATH': '/usr/bin:/bin'}, timeout=600)
        demo_res = 'fails' if demo.returncode != 0 else 'passes'
    finally:
        subprocess.run(['git', '-C', '/repo', 'checkout', '--', '.'], check=True)
    meta = json.loads((d / 'meta.json').read_text())
    meta['detected_by_at_head'] = fired
    meta['demo_at_head_with_change'] = demo_res
    meta['head'] = subprocess.run(['git', '-C', '/repo', 'log', '-1', '--format=%h'], capture_output=True, text=True).stdout.strip()
    (d / 'meta.json').write_text(json.dumps(meta, indent=1) + '\n')
    rows.append((d.name, meta['property_broken'], demo_res, fired))
    print(d.name, meta['property_broken'], 'demo', demo_res, '|', fired, flush=True)
json.dump(rows, open('/verif/seeded/matrix.json', 'w'), indent=1)
