#!/usr/bin/env python3
"""tools/respell_sweep.py [--only NAME ...] : false-alarm search (not part of any registered check).

Applies one mechanical, behaviour-preserving respelling to EVERY site of the package where it is applicable (whole-package variant, in memory),
runs every rule module on the variant and reports each finding that is not a known finding: any such report is a false alarm of the checker.
Respellings (each sound for the value types the package uses there; applicability conditions in the code):
  flag-eq-true       if X: / if not X:          ->  if X == True: / if X == False:        (X = self.<bool flag>)
  flag-plain         X == True / X == False     ->  X / not X                              (same flags)
  len-zero           not L / L  (list truth)    ->  len(L) == 0 / len(L) > 0               (L = self.<role list>)
  len-truth          len(L) == 0 / len(L) > 0   ->  not L / L
  swap-if-else       if c: A else: B            ->  if not c: B else: A
  flip-compare       a < b, a <= b, a > b, a>=b ->  b > a, ...
  aug-expand         x += e                      ->  x = x + e                               (x a name, attribute or constant subscript; e without calls)
  aug-contract       x = x + e                   ->  x += e
  ne-not-eq          a != b                      ->  not (a == b)
  is-not-none        x is not None               ->  not (x is None)
  demorgan           not a and not b            ->  not (a or b)
  tuple-in           x in [a, b]                 ->  x in (a, b)
  else-after-term    if c: ...return/raise/continue; rest  ->  if c: ... else: rest   (and back)
  call-counter / scan-loop / memo-len : ADDED code that changes nothing (a per-method call counter, a loop that only looks at a list after it was
                     mutated, a length computed into a local right before the test that uses it)
"""
import argparse
import ast
import copy
import json
import multiprocessing as mp
import os
import pathlib
import sys
import tempfile

ROOT = pathlib.Path(__file__).resolve().parent.parent
sys.path.insert(0, str(ROOT))
os.environ.setdefault('FSA_EVIDENCE_DIR', tempfile.mkdtemp(prefix='fsa-rsp-'))

from fsa.model import Project, AnalysisError      # noqa: E402
from fsa import cli                                 # noqa: E402

REPO = os.environ.get('FSA_REPO', '/repo')
ROLE = {'items', 'ready_items', 'reservations_put', 'reservations_get', 'reserve_put_queue', 'reserve_get_queue', 'reserved_events', 'reserved_items',
        'in_edges', 'out_edges', 'worker_thread_list'}
FLAGS = {'blocking', 'accumulation_mode_indicator', 'noaccumulation_mode_on', 'one_item_inserted', 'triggered'}


def is_self_attr(e, names):
    return isinstance(e, ast.Attribute) and e.attr in names and isinstance(e.value, (ast.Name, ast.Attribute))


def no_calls(e):
    return not any(isinstance(x, (ast.Call, ast.Yield, ast.YieldFrom, ast.Await, ast.NamedExpr)) for x in ast.walk(e))


class Base(ast.NodeTransformer):
    count = 0

    def hit(self):
        type(self).count += 1


def in_test_position(tr):
    """decorator helper: apply `tr.test(e)` to the tests of if / while / assert / ifexp and to operands of and/or/not inside them"""
    def rec(e):
        if isinstance(e, ast.BoolOp):
            e.values = [rec(v) for v in e.values]
            return e
        if isinstance(e, ast.UnaryOp) and isinstance(e.op, ast.Not):
            r = tr.neg(e.operand)
            if r is not None:
                return r
            e.operand = rec(e.operand)
            return e
        r = tr.pos(e)
        return r if r is not None else e
    return rec


class FlagEqTrue(Base):
    def pos(self, e):
        if is_self_attr(e, FLAGS - {'triggered'}):
            self.hit()
            return ast.Compare(left=e, ops=[ast.Eq()], comparators=[ast.Constant(value=True)])

    def neg(self, e):
        if is_self_attr(e, FLAGS - {'triggered'}):
            self.hit()
            return ast.Compare(left=e, ops=[ast.Eq()], comparators=[ast.Constant(value=False)])

    def generic_tests(self, node):
        rec = in_test_position(self)
        for n in ast.walk(node):
            if isinstance(n, (ast.If, ast.While, ast.IfExp, ast.Assert)):
                n.test = rec(n.test)
        return node


class FlagPlain(Base):
    def visit_Compare(self, node):
        self.generic_visit(node)
        if len(node.ops) == 1 and isinstance(node.ops[0], (ast.Eq, ast.NotEq)) and isinstance(node.comparators[0], ast.Constant) \
                and isinstance(node.comparators[0].value, bool) and is_self_attr(node.left, FLAGS):
            self.hit()
            positive = node.comparators[0].value == isinstance(node.ops[0], ast.Eq)
            return node.left if positive else ast.UnaryOp(op=ast.Not(), operand=node.left)
        return node


class LenZero(Base):
    def pos(self, e):
        if is_self_attr(e, ROLE):
            self.hit()
            return ast.Compare(left=ast.Call(func=ast.Name(id='len', ctx=ast.Load()), args=[e], keywords=[]), ops=[ast.Gt()], comparators=[ast.Constant(value=0)])

    def neg(self, e):
        if is_self_attr(e, ROLE):
            self.hit()
            return ast.Compare(left=ast.Call(func=ast.Name(id='len', ctx=ast.Load()), args=[e], keywords=[]), ops=[ast.Eq()], comparators=[ast.Constant(value=0)])
    generic_tests = FlagEqTrue.generic_tests


class LenTruth(Base):
    def visit_Compare(self, node):
        self.generic_visit(node)
        l, c = node.left, node.comparators[0] if len(node.comparators) == 1 else None
        if c is not None and isinstance(l, ast.Call) and isinstance(l.func, ast.Name) and l.func.id == 'len' and len(l.args) == 1 and is_self_attr(l.args[0], ROLE) \
                and isinstance(c, ast.Constant) and c.value == 0 and getattr(node, '_in_test', False):
            if isinstance(node.ops[0], ast.Eq):
                self.hit()
                return ast.UnaryOp(op=ast.Not(), operand=l.args[0])
            if isinstance(node.ops[0], (ast.Gt, ast.NotEq)):
                self.hit()
                return l.args[0]
        return node

    def mark(self, tree):
        def rec(e):
            if isinstance(e, ast.BoolOp):
                for v in e.values:
                    rec(v)
            elif isinstance(e, ast.UnaryOp) and isinstance(e.op, ast.Not):
                rec(e.operand)
            elif isinstance(e, ast.Compare):
                e._in_test = True
        for n in ast.walk(tree):
            if isinstance(n, (ast.If, ast.While, ast.Assert)):
                rec(n.test)


class SwapIfElse(Base):
    def visit_If(self, node):
        self.generic_visit(node)
        if node.orelse and not (len(node.orelse) == 1 and isinstance(node.orelse[0], ast.If)):
            self.hit()
            t = node.test
            nt = t.operand if isinstance(t, ast.UnaryOp) and isinstance(t.op, ast.Not) else ast.UnaryOp(op=ast.Not(), operand=t)
            node.test, node.body, node.orelse = nt, node.orelse, node.body
        return node


class FlipCompare(Base):
    M = {ast.Lt: ast.Gt, ast.Gt: ast.Lt, ast.LtE: ast.GtE, ast.GtE: ast.LtE}

    def visit_Compare(self, node):
        self.generic_visit(node)
        if len(node.ops) == 1 and type(node.ops[0]) in self.M and no_calls(node.left) == no_calls(node.comparators[0]):
            # (operands with calls keep their evaluation order only if neither or both are call-free; be conservative: both call-free or both pure len())
            if no_calls(node.left) or all(isinstance(x, ast.Call) and isinstance(x.func, ast.Name) and x.func.id == 'len' for x in ast.walk(node) if isinstance(x, ast.Call)):
                self.hit()
                return ast.Compare(left=node.comparators[0], ops=[self.M[type(node.ops[0])]()], comparators=[node.left])
        return node


def simple_target(t):
    if isinstance(t, ast.Name):
        return True
    if isinstance(t, ast.Attribute):
        return no_calls(t)
    if isinstance(t, ast.Subscript):
        return no_calls(t.value) and isinstance(t.slice, ast.Constant)
    return False


class AugExpand(Base):
    def visit_AugAssign(self, node):
        if simple_target(node.target) and no_calls(node.value) and isinstance(node.op, (ast.Add, ast.Sub)):
            self.hit()
            load = copy.deepcopy(node.target)
            for x in ast.walk(load):
                if hasattr(x, 'ctx'):
                    x.ctx = ast.Load()
            return ast.Assign(targets=[node.target], value=ast.BinOp(left=load, op=node.op, right=node.value), lineno=node.lineno)
        return node


class AugContract(Base):
    def visit_Assign(self, node):
        if len(node.targets) == 1 and simple_target(node.targets[0]) and isinstance(node.value, ast.BinOp) and isinstance(node.value.op, (ast.Add, ast.Sub)) \
                and ast.unparse(node.value.left) == ast.unparse(node.targets[0]) and no_calls(node.value.right):
            # numbers only: `x = x + [..]` on lists is not `+=` (aliasing); the package uses this form for counters and times
            if not isinstance(node.value.right, (ast.List, ast.Tuple, ast.ListComp)):
                self.hit()
                return ast.AugAssign(target=node.targets[0], op=node.value.op, value=node.value.right, lineno=node.lineno)
        return node


class NeNotEq(Base):
    def visit_Compare(self, node):
        self.generic_visit(node)
        if len(node.ops) == 1 and isinstance(node.ops[0], ast.NotEq):
            self.hit()
            return ast.UnaryOp(op=ast.Not(), operand=ast.Compare(left=node.left, ops=[ast.Eq()], comparators=node.comparators))
        return node


class IsNotNone(Base):
    def visit_Compare(self, node):
        self.generic_visit(node)
        if len(node.ops) == 1 and isinstance(node.ops[0], ast.IsNot) and isinstance(node.comparators[0], ast.Constant) and node.comparators[0].value is None:
            self.hit()
            return ast.UnaryOp(op=ast.Not(), operand=ast.Compare(left=node.left, ops=[ast.Is()], comparators=node.comparators))
        return node


class DeMorgan(Base):
    def visit_BoolOp(self, node):
        self.generic_visit(node)
        if all(isinstance(v, ast.UnaryOp) and isinstance(v.op, ast.Not) for v in node.values):
            self.hit()
            other = ast.Or() if isinstance(node.op, ast.And) else ast.And()
            return ast.UnaryOp(op=ast.Not(), operand=ast.BoolOp(op=other, values=[v.operand for v in node.values]))
        return node


class TupleIn(Base):
    def visit_Compare(self, node):
        self.generic_visit(node)
        if len(node.ops) == 1 and isinstance(node.ops[0], (ast.In, ast.NotIn)) and isinstance(node.comparators[0], ast.List) \
                and all(isinstance(e, ast.Constant) for e in node.comparators[0].elts):
            self.hit()
            node.comparators = [ast.Tuple(elts=node.comparators[0].elts, ctx=ast.Load())]
        return node


TERM = (ast.Return, ast.Raise, ast.Continue, ast.Break)


class ElseAfterTerm(Base):
    """if c: ...; return   rest   ->   if c: ...; return  else: rest"""

    def block(self, body):
        for i, st in enumerate(body):
            if isinstance(st, ast.If) and not st.orelse and st.body and isinstance(st.body[-1], TERM) and i + 1 < len(body) \
                    and not any(isinstance(x, (ast.FunctionDef, ast.ClassDef)) for x in body[i + 1:]):
                self.hit()
                st.orelse = body[i + 1:]
                del body[i + 1:]
                break

    def run(self, tree):
        for n in ast.walk(tree):
            for f in ('body', 'orelse', 'finalbody'):
                b = getattr(n, f, None)
                if isinstance(b, list) and b and isinstance(b[0], ast.stmt) and not isinstance(n, (ast.Module, ast.ClassDef)):
                    self.block(b)


class ElseAfterTermBack(Base):
    """if c: ...; return  else: rest   ->   if c: ...; return   rest"""

    def block(self, body):
        i = 0
        while i < len(body):
            st = body[i]
            if isinstance(st, ast.If) and st.orelse and st.body and isinstance(st.body[-1], TERM) and not (len(st.orelse) == 1 and isinstance(st.orelse[0], ast.If)):
                self.hit()
                rest = st.orelse
                st.orelse = []
                body[i + 1:i + 1] = rest
            i += 1

    def run(self, tree):
        for n in ast.walk(tree):
            for f in ('body', 'orelse', 'finalbody'):
                b = getattr(n, f, None)
                if isinstance(b, list) and b and isinstance(b[0], ast.stmt) and not isinstance(n, (ast.Module, ast.ClassDef)):
                    self.block(b)


class RenameLocals(Base):
    """every local variable (not parameters, not names declared global/nonlocal, not names also used as attributes of self) gets a new name"""

    def run(self, tree):
        for fn in [n for n in ast.walk(tree) if isinstance(n, ast.FunctionDef)]:
            params = {a.arg for a in fn.args.args + fn.args.kwonlyargs + fn.args.posonlyargs}
            if fn.args.vararg:
                params.add(fn.args.vararg.arg)
            if fn.args.kwarg:
                params.add(fn.args.kwarg.arg)
            skip = set(params)
            nested = [n for n in ast.walk(fn) if isinstance(n, (ast.FunctionDef, ast.Lambda, ast.ClassDef)) and n is not fn]
            for n in ast.walk(fn):
                if isinstance(n, (ast.Global, ast.Nonlocal)):
                    skip |= set(n.names)
            if nested:
                continue            # closures: leave the function alone
            stored = {n.id for n in ast.walk(fn) if isinstance(n, ast.Name) and isinstance(n.ctx, (ast.Store, ast.Del))} - skip
            # names used as keyword names in f-string debug (`{x=}`) or in locals()/eval are not handled: the package has none
            mapping = {nm: f'{nm}_rn' for nm in stored}
            for n in ast.walk(fn):
                if isinstance(n, ast.Name) and n.id in mapping:
                    n.id = mapping[n.id]
                    self.hit()
                elif isinstance(n, ast.ExceptHandler) and n.name in mapping:
                    n.name = mapping[n.name]


class NextToLoop(Base):
    """x = next((v for v in L if P), None)  ->  x = None ; for v in L: if P: x = v; break"""

    def block(self, body):
        i = 0
        while i < len(body):
            st = body[i]
            if isinstance(st, ast.Assign) and len(st.targets) == 1 and isinstance(st.value, ast.Call) and isinstance(st.value.func, ast.Name) and st.value.func.id == 'next' \
                    and len(st.value.args) == 2 and isinstance(st.value.args[0], ast.GeneratorExp) and isinstance(st.value.args[1], ast.Constant) and st.value.args[1].value is None:
                ge = st.value.args[0]
                gen = ge.generators[0]
                if len(ge.generators) == 1 and isinstance(gen.target, ast.Name) and isinstance(ge.elt, ast.Name) and ge.elt.id == gen.target.id and gen.ifs:
                    self.hit()
                    test = gen.ifs[0] if len(gen.ifs) == 1 else ast.BoolOp(op=ast.And(), values=list(gen.ifs))
                    tgt_load = copy.deepcopy(st.targets[0])
                    init = ast.Assign(targets=[copy.deepcopy(st.targets[0])], value=ast.Constant(value=None), lineno=st.lineno)
                    loop = ast.For(target=ast.Name(id=gen.target.id, ctx=ast.Store()), iter=gen.iter,
                                   body=[ast.If(test=test, body=[ast.Assign(targets=[copy.deepcopy(st.targets[0])], value=ast.Name(id=gen.target.id, ctx=ast.Load()), lineno=st.lineno),
                                                                 ast.Break()], orelse=[])], orelse=[], lineno=st.lineno)
                    body[i:i + 1] = [init, loop]
                    i += 2
                    continue
            i += 1

    def run(self, tree):
        for n in ast.walk(tree):
            for f in ('body', 'orelse', 'finalbody'):
                b = getattr(n, f, None)
                if isinstance(b, list) and b and isinstance(b[0], ast.stmt) and not isinstance(n, (ast.Module, ast.ClassDef)):
                    self.block(b)


class AliasRoleLists(Base):
    """q = self.<list> at the top of a function that uses the list at least twice and never re-binds it; uses go through the alias"""

    def run(self, tree):
        for fn in [n for n in ast.walk(tree) if isinstance(n, ast.FunctionDef)]:
            if any(isinstance(n, (ast.FunctionDef, ast.Lambda)) and n is not fn for n in ast.walk(fn)) or fn.name == '__init__':
                continue
            uses = {}
            rebound = set()
            for n in ast.walk(fn):
                if isinstance(n, ast.Attribute) and isinstance(n.value, ast.Name) and n.value.id == 'self' and n.attr in ROLE - {'in_edges', 'out_edges', 'worker_thread_list'}:
                    if isinstance(n.ctx, ast.Load):
                        uses.setdefault(n.attr, []).append(n)
                    else:
                        rebound.add(n.attr)
            doc = 1 if fn.body and isinstance(fn.body[0], ast.Expr) and isinstance(fn.body[0].value, ast.Constant) else 0
            pre = []
            for attr, nodes in sorted(uses.items()):
                if len(nodes) < 2 or attr in rebound:
                    continue
                alias = f'_{attr}_alias'
                for n in nodes:
                    n.__class__ = ast.Name
                    n.id = alias
                    n.ctx = ast.Load()
                    n._fields = ('id', 'ctx')
                    self.hit()
                pre.append(ast.Assign(targets=[ast.Name(id=alias, ctx=ast.Store())], value=ast.Attribute(value=ast.Name(id='self', ctx=ast.Load()), attr=attr, ctx=ast.Load()), lineno=fn.lineno))
            fn.body[doc:doc] = pre


class EarlyReturnGuard(Base):
    """function ending in `if c: BODY` (no else)  ->  `if not c: return` ; BODY   (non-generator functions)"""

    def run(self, tree):
        for fn in [n for n in ast.walk(tree) if isinstance(n, ast.FunctionDef)]:
            if any(isinstance(x, (ast.Yield, ast.YieldFrom)) for x in ast.walk(fn)):
                continue
            last = fn.body[-1]
            if isinstance(last, ast.If) and not last.orelse and len(fn.body) >= 1:
                self.hit()
                t = last.test
                nt = t.operand if isinstance(t, ast.UnaryOp) and isinstance(t.op, ast.Not) else ast.UnaryOp(op=ast.Not(), operand=t)
                guard = ast.If(test=nt, body=[ast.Return(value=None)], orelse=[], lineno=last.lineno)
                fn.body[-1:] = [guard] + last.body


class CallCounter(Base):
    """added code: every method counts its calls in a private attribute (`self._n_calls = getattr(self, '_n_calls', 0) + 1` as first statement)"""

    def run(self, tree):
        for cls in [n for n in ast.walk(tree) if isinstance(n, ast.ClassDef)]:
            for fn in [n for n in cls.body if isinstance(n, ast.FunctionDef)]:
                if not fn.args.args or fn.args.args[0].arg != 'self' or fn.name.startswith('__'):
                    continue
                doc = 1 if fn.body and isinstance(fn.body[0], ast.Expr) and isinstance(fn.body[0].value, ast.Constant) else 0
                st = ast.parse("self._n_calls = getattr(self, '_n_calls', 0) + 1").body[0]
                fn.body[doc:doc] = [st]
                self.hit()


class ScanLoop(Base):
    """added code: after the first top-level statement of a store method that mutates a role list, a loop that only looks at the list
    (`for _seen in list(self.<L>): _last_seen = _seen`)"""

    def run(self, tree):
        for fn in [n for n in ast.walk(tree) if isinstance(n, ast.FunctionDef)]:
            if any(isinstance(x, (ast.Yield, ast.YieldFrom)) for x in ast.walk(fn)):
                continue
            for blk in [fn.body] + [getattr(n, f) for n in ast.walk(fn) for f in ('body', 'orelse') if isinstance(n, (ast.If,)) and getattr(n, f, None)]:
                done = False
                for i, st in enumerate(list(blk)):
                    if isinstance(st, ast.Expr) and isinstance(st.value, ast.Call) and isinstance(st.value.func, ast.Attribute) \
                            and st.value.func.attr in ('append', 'pop', 'remove', 'insert') and is_self_attr(st.value.func.value, ROLE) and not done:
                        L = ast.unparse(st.value.func.value)
                        loop = ast.parse(f"for _seen in list({L}):\n    _last_seen = _seen").body[0]
                        blk.insert(i + 1, loop)
                        self.hit()
                        done = True
                if done:
                    break


class MemoLen(Base):
    """added code: `len(self.<L>)` in an if-test / return value without other calls is computed into a local right before the statement"""

    def run(self, tree):
        for n in ast.walk(tree):
            for f in ('body', 'orelse', 'finalbody'):
                b = getattr(n, f, None)
                if not (isinstance(b, list) and b and isinstance(b[0], ast.stmt)) or isinstance(n, (ast.Module, ast.ClassDef)):
                    continue
                i = 0
                while i < len(b):
                    st = b[i]
                    expr = st.test if isinstance(st, ast.If) else (st.value if isinstance(st, ast.Return) else None)
                    if expr is not None:
                        lens = [c for c in ast.walk(expr) if isinstance(c, ast.Call) and isinstance(c.func, ast.Name) and c.func.id == 'len'
                                and len(c.args) == 1 and is_self_attr(c.args[0], ROLE)]
                        others = [c for c in ast.walk(expr) if isinstance(c, ast.Call) and c not in lens]
                        if lens and not others and not any(isinstance(x, (ast.BoolOp, ast.IfExp)) for x in ast.walk(expr)):
                            pre = []
                            seen = {}
                            for c in lens:
                                L = c.args[0].attr
                                name = f'_len_{L}'
                                if L not in seen:
                                    seen[L] = name
                                    pre.append(ast.Assign(targets=[ast.Name(id=name, ctx=ast.Store())], value=copy.deepcopy(c), lineno=st.lineno))
                                c.__class__ = ast.Name
                                c.id = name
                                c.ctx = ast.Load()
                                c._fields = ('id', 'ctx')
                                self.hit()
                            b[i:i] = pre
                            i += len(pre)
                    i += 1


def build(name, p):
    cls = {'flag-eq-true': FlagEqTrue, 'flag-plain': FlagPlain, 'len-zero': LenZero, 'len-truth': LenTruth, 'swap-if-else': SwapIfElse,
           'flip-compare': FlipCompare, 'aug-expand': AugExpand, 'aug-contract': AugContract, 'ne-not-eq': NeNotEq, 'is-not-none': IsNotNone,
           'demorgan': DeMorgan, 'tuple-in': TupleIn, 'else-after-term': ElseAfterTerm, 'else-after-term-back': ElseAfterTermBack,
           'rename-locals': RenameLocals, 'next-to-loop': NextToLoop, 'alias-role-lists': AliasRoleLists, 'early-return-guard': EarlyReturnGuard,
           'call-counter': CallCounter, 'scan-loop': ScanLoop, 'memo-len': MemoLen}[name]
    cls.count = 0
    out = {}
    for rel, m in p.modules.items():
        tree = copy.deepcopy(m.tree)
        tr = cls()
        if hasattr(tr, 'mark'):
            tr.mark(tree)
        if hasattr(tr, 'generic_tests'):
            tr.generic_tests(tree)
        elif hasattr(tr, 'run'):
            tr.run(tree)
        else:
            tree = tr.visit(tree)
        ast.fix_missing_locations(tree)
        src = ast.unparse(tree) + '\n'
        compile(src, rel, 'exec')
        out[rel] = src
    return out, cls.count


NAMES = ['flag-eq-true', 'flag-plain', 'len-zero', 'len-truth', 'swap-if-else', 'flip-compare', 'aug-expand', 'aug-contract', 'ne-not-eq', 'is-not-none',
         'demorgan', 'tuple-in', 'else-after-term', 'else-after-term-back', 'rename-locals', 'next-to-loop', 'alias-role-lists', 'early-return-guard',
         'call-counter', 'scan-loop', 'memo-len']


def job(args):
    name, prop = args
    base = Project(REPO, normalise=False)
    overlay, n = build(name, base)
    known = {(k['property'], k['rule'], k['construct']) for k in json.loads((ROOT / 'known_findings.json').read_text()).get('findings', [])}
    try:
        res = cli.load_rule(prop).run(Project(REPO, overlay), 'quick')
        new = [(f.rule, f.construct, f.message[:160]) for f in res.findings if not f.advisory and f.key not in known]
        # floors
        floors = [f'{rid}: {res.count(rid)} < {fl}' for rid, fl in res.floors.items() if res.count(rid) < fl]
        return name, prop, n, new, floors, ''
    except AnalysisError as e:
        return name, prop, n, [], [], f'ANALYSIS-ERROR {e}'
    except Exception as e:      # noqa: BLE001
        import traceback
        return name, prop, n, [], [], 'EXC ' + traceback.format_exc()[-300:]


def main():
    ap = argparse.ArgumentParser()
    ap.add_argument('--only', nargs='*', default=[])
    ap.add_argument('--props', nargs='*', default=[])
    ap.add_argument('--dump', default='')
    a = ap.parse_args()
    names = a.only or NAMES
    if a.dump:
        base = Project(REPO, normalise=False)
        overlay, n = build(names[0], base)
        for rel, src in overlay.items():
            f = pathlib.Path(a.dump) / rel
            f.parent.mkdir(parents=True, exist_ok=True)
            f.write_text(src)
        print(f'{names[0]}: {n} sites, written to {a.dump}')
        return
    props = a.props or cli.PROPS
    jobs = [(n, p) for n in names for p in props]
    with mp.get_context('fork').Pool(min(16, len(jobs))) as pool:
        out = pool.map(job, jobs, chunksize=1)
    bad = 0
    seen_n = {}
    for name, prop, n, new, floors, err in out:
        seen_n[name] = n
        if new or floors or err:
            bad += 1
            print(f'{name:22s} {prop}: {err}')
            for x in new[:4]:
                print('      ', x)
            for x in floors[:3]:
                print('       floor', x)
    print('sites per respelling:', seen_n)
    print(f'{bad} (respelling, property) pairs with false alarms out of {len(jobs)}')


if __name__ == '__main__':
    main()
