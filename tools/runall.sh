#!/bin/bash
# run all quick checks in parallel against $1 (default /repo), scratch evidence dir
R=${1:-/repo}
export FSA_EVIDENCE_DIR=$(mktemp -d)
cd /verif
for c in C01 C02 C03 C04 C05 C06 C07 C08 C09 C10 C11 C12 C13 C14 C15 C16 C17 C18 C19 C20; do
  ( ./check $c --repo $R > $FSA_EVIDENCE_DIR/$c.out 2>&1; echo "$c exit $?" >> $FSA_EVIDENCE_DIR/summary ) &
done
wait
sort $FSA_EVIDENCE_DIR/summary | tr '\n' ' '; echo
for c in C01 C02 C03 C04 C05 C06 C07 C08 C09 C10 C11 C12 C13 C14 C15 C16 C17 C18 C19 C20; do
  grep -E "^(VIOLATION|ANALYSIS-ERROR|Traceback)|: C[0-9][0-9]\.[A-Z]" $FSA_EVIDENCE_DIR/$c.out | grep -v "^KNOWN\|^ADVISORY" | cut -c1-${2:-300} | head -${3:-6}
done
rm -rf $FSA_EVIDENCE_DIR
