#!/bin/bash
# run all thorough checks against /repo (scratch evidence dir), 4 at a time; print the SELFTEST lines and exit codes
export FSA_EVIDENCE_DIR=$(mktemp -d)
cd /verif
run() { ./check $1 --tier thorough > $FSA_EVIDENCE_DIR/$1.out 2>&1; echo "$1 exit $?" >> $FSA_EVIDENCE_DIR/summary; }
for grp in "C01 C02 C03 C04" "C05 C06 C07 C08" "C09 C10 C11 C12" "C13 C14 C15 C16" "C17 C18 C19 C20"; do
  for c in $grp; do run $c & done; wait
done
sort $FSA_EVIDENCE_DIR/summary | tr '\n' ' '; echo
grep -h "^SELFTEST" $FSA_EVIDENCE_DIR/*.out | grep -v "0 missed, .* 0 false alarms, 0 stale, 0 errors" | cut -c1-400
grep -h "^ANALYSIS-ERROR\|^VIOLATION" $FSA_EVIDENCE_DIR/*.out | cut -c1-300
rm -rf $FSA_EVIDENCE_DIR
