#!/usr/bin/env python3
"""tools/seed_meta.py <seed-id> <property> <needs> : run all checks on the seeded worktree and write /verif/seeded/<id>/meta.json"""
import json, pathlib, subprocess, sys
sid, prop, wt, needs = sys.argv[1], sys.argv[2], sys.argv[3], sys.argv[4]
out = subprocess.run(['python3', '/verif/tools/try_seed.py', wt], capture_output=True, text=True).stdout
fired = [l for l in out.splitlines() if l.startswith('FIRED:')][0][len('FIRED: '):]
msgs = [l.strip()[:300] for l in out.splitlines() if l.startswith('     ')]
d = pathlib.Path('/verif/seeded') / sid
suite = (d / '.suite').read_text().strip() if (d / '.suite').exists() else ''
meta = {
    'seed': sid, 'property_broken': prop, 'origin': 'independent sub-agent given only the property text and a scratch worktree',
    'needs_to_manifest': needs,
    'confirmed': {'suite_with_change': suite, 'demo_with_change': (d / '.demo_with').read_text().strip()[-300:],
                  'demo_without_change': (d / '.demo_without').read_text().strip()[-200:],
                  'how': 'tools/verify_seed.sh: pytest in the scratch worktree with the change; demo.py with the change (must fail) and with src stashed (must pass)'},
    'checks_run': 'tools/try_seed.py <worktree>: every registered quick check with --repo <worktree>',
    'detected_by': fired, 'reports': msgs[:6],
}
(d / 'meta.json').write_text(json.dumps(meta, indent=1) + '\n')
for f in ('.suite', '.demo_with', '.demo_without'):
    (d / f).unlink(missing_ok=True)
print(sid, '->', fired)
