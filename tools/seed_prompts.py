#!/usr/bin/env python3
"""tools/seed_prompts.py <round-letter> : create one scratch worktree /tmp/seed/<Cnn><letter> and one prompt file per property for an independent
sub-agent (property text, quantifier, anchors and mechanisms from properties.jsonl; where the earlier seeds for the property are; nothing from /verif)."""
import json, pathlib, subprocess, sys, re
letter = sys.argv[1]
STYLE = {
 'i': ("Look at the list above and deliberately pick a COMPONENT x MECHANISM pair that is absent from it. Kinds of mechanism that have hardly been used so "
       "far: the generator protocol (next / StopIteration / a generator consumed or restarted, a generator function called where an instance is expected), "
       "the SimPy event lifecycle (triggered vs processed, callbacks, succeed() twice, the value an event carries, any_of / all_of conditions that are "
       "re-used or evaluated late), numeric details of time arithmetic (float vs int division, rounding, tolerance constants, <= vs < at an exact "
       "boundary instant), state / policy / mode NAMES and string handling (a state name mistyped in one place, case, a new state not handled by a "
       "dispatch), inheritance and overriding (a method overridden without calling the base, an attribute shadowed in a subclass, a class attribute vs "
       "instance attribute), default argument values, the ORDER of two statements inside one instant (stamp before / after, count before / after, "
       "trigger before / after the list is updated), statistics finalisation at the end of the run. Keep it small and plausible."),
 'h': ("This time target a CONTRACT BETWEEN TWO COMPONENTS rather than one function, and change only ONE side of it so that the other side, unchanged, "
       "now misbehaves: what an edge class promises the nodes that use it (delegation of reserve / put / get / cancel, can_put / can_get, the time stamps and "
       "statistics it updates in its wrapper, the events it fires for its own process); what a store promises its edge (events fired, callbacks registered, "
       "attributes set on tokens and items, return values such as `proceed`); what the helper classes (Pallet, Item / BaseFlowItem, the Node and Edge base "
       "classes, utils) promise their users; what a constructor or reset() promises the methods that run later (attributes initialised, defaults, validation "
       "done once). Prefer a file / class that none of the earlier changes touched. Keep it small and plausible."),
 'g': ("This time make it a CLEAN-UP / SIMPLIFICATION that goes slightly wrong - the diff should mostly REMOVE or SHORTEN code: something that looks "
       "redundant is dropped (a second check, a repeated re-trigger call, a defensive copy `list(...)`, a re-read of `env.now`, a `not ev.triggered` "
       "guard, the reset of a variable, an `else` branch, a `try/except`), two branches that look alike but differ in one detail are merged, a hand-written "
       "loop is replaced by a builtin or comprehension with slightly different semantics (any/all/next/sum/min/max/sorted/index/filter: first vs last match, "
       "stable vs unstable, short-circuit vs full scan, default value), `is`/`==` or `<`/`<=` exchanged while 'tidying', iteration over a copy turned into "
       "iteration over the live list, a sibling class's code copied over although the two classes differ in one detail. It must still look like an "
       "improvement a reviewer would wave through."),
 'f': ("This time prefer a change of a KIND the earlier ones are not: code ADDED rather than edited (a small cache / memo of a length, index or "
       "flag that goes stale; an 'optimisation' that skips work when it looks unnecessary; a fast path for the common case; a new default; a helper "
       "introduced to share code between two methods that differ in one detail), an edit in a component NONE of the earlier changes touched (look at "
       "base classes, helpers, the edge classes, the less-used store classes, constructors, reset paths, statistics finalisation), or an edit to how "
       "two methods cooperate (one sets what the other reads). Keep it small and plausible."),
}
props = {json.loads(l)['id']: json.loads(l) for l in open('/verif/properties.jsonl')}
seed_root = pathlib.Path('/verif/seeded')
for pid, p in props.items():
    wt = f'/tmp/seed/{pid}{letter}'
    subprocess.run(['git', '-C', '/repo', 'worktree', 'add', '--detach', wt, 'HEAD'], capture_output=True, check=True)
    earlier = []
    for d in sorted(seed_root.glob(f'{pid}-*')):
        diff = (d / 'patch.diff').read_text()
        files = re.findall(r'^\+\+\+ b/src/factorysimpy/(\S+)', diff, re.M)
        funcs = sorted(set(re.findall(r'^@@.*@@.*?(?:def|class) (\w+)', diff, re.M)))
        meta = json.loads((d / 'meta.json').read_text())
        earlier.append(f"  {len(earlier)+1}. {', '.join(files)} ({', '.join(funcs)}): {meta['needs_to_manifest'][:230]}")
    a = p['anchors']
    mech = '; '.join(f"{m['name']} ({m.get('where','')})" for m in a.get('mechanism', []))
    text = f"""You are helping to evaluate a verification effort for the open-source Python library FactorySimPy (a SimPy-based component library for discrete-event simulation of manufacturing lines: reservable stores, buffers, conveyor belts, fleets, and machine/splitter/combiner nodes).

You have your own scratch git worktree of the repository at: {wt}
Work ONLY inside that directory (edit files under {wt}/src/factorysimpy). Do not touch /repo, /verif or any other worktree, and do not read anything under /verif.

The library is supposed to satisfy this semantic property ({pid}: {p['title']}):

  STATEMENT: {p['statement']}

  It must hold for: {p['quantifier']['text']}

  Code the property is anchored in: {', '.join(a['files'])}
  Mechanisms meant to make it hold: {mech}

NOTE: other contributors have already produced {len(earlier)} changes for this property, at these places:
{chr(10).join(earlier)}
Your change must be DIFFERENT from all of them: a different function (preferably a different file / component class) and a different mechanism. {STYLE[letter]}

YOUR TASK: produce ONE realistic change (a "seeded defect") to the library source that BREAKS this property while
  (a) the package still imports/compiles, and
  (b) the existing test suite still passes exactly as before: run it with
        cd {wt} && PYTHONPATH={wt}/src /venv/bin/python -m pytest -q -p no:cacheprovider --timeout=900 --continue-on-collection-errors
      The unmodified tree gives "70 passed, 4 errors" (the 4 errors are pre-existing collection/fixture errors in tests/test_source.py and examples/); your change must give the same result.
  (c) The change should look like a plausible maintenance edit/regression, small (a few lines, at most ~15), NOT a blatant sabotage, and it should need something SPECIFIC to manifest: a particular interleaving, a multi-step sequence of operations, an unusual-but-valid input or configuration, or two cooperating sites that each look fine alone - not something ordinary use exposes at once.

Also write a DEMONSTRATION: a small standalone Python script {wt}/demo.py that uses the library's public API (import with PYTHONPATH={wt}/src, run with /venv/bin/python) and that
  - exits with status 0 and prints PASS on the UNMODIFIED tree (use `git diff -- src > /tmp/seed/{pid}{letter}.patch; git checkout -- src; ...; git apply /tmp/seed/{pid}{letter}.patch` to check both ways), and
  - exits non-zero and prints FAIL (with a one-line explanation of the observed wrong behaviour) on the MODIFIED tree.
The demo must show a violation of the property statement above, not merely a crash unrelated to it. Silence the library's own print output in the demo (contextlib.redirect_stdout) so its output is short. Note: SimPy is installed in /venv; there is no network.

Read the relevant source first so the change is well-targeted. When you are done, leave the modified source files in place in the worktree (uncommitted), leave demo.py there, and reply with: (1) the unified diff of your source change (git diff -- src), (2) a short explanation of why it breaks the property and what it needs in order to manifest (one or two sentences), (3) the exact commands you ran and their outcomes (test suite result with the change; demo result with and without the change).

IMPORTANT: never use `git stash` (the stash is shared between worktrees); use `git diff -- src > /tmp/seed/{pid}{letter}.patch; git checkout -- src; <run>; git apply /tmp/seed/{pid}{letter}.patch`.
"""
    pathlib.Path(f'/tmp/seed/prompt_{pid}{letter}.txt').write_text(text)
print('ok')
