#!/usr/bin/env python3
"""tools/seed_table.py <round-letter> [notes.json] : markdown table of one round of seeded changes from seeded/*/meta.json (for DESIGN.md §9.4)."""
import json, pathlib, re, sys
letter = sys.argv[1]
notes = json.load(open(sys.argv[2])) if len(sys.argv) > 2 else {}
print('| seed | where | what it needs in order to manifest | caught at HEAD by (own property first) | note |')
print('|------|-------|-------------------------------------|-------------------|------|')
for d in sorted(pathlib.Path('/verif/seeded').glob(f'C??-{letter}')):
    m = json.loads((d / 'meta.json').read_text())
    files = ', '.join(re.findall(r'^\+\+\+ b/src/factorysimpy/(\S+)', (d / 'patch.diff').read_text(), re.M))
    det = m.get('detected_by_at_head') or m['detected_by']
    hits = re.findall(r'(C\d\d)\(exit 1\)', det)
    own = m['property_broken']
    hits = ([own] if own in hits else []) + [h for h in hits if h != own]
    fc = re.findall(r'(C\d\d)\(exit 2\)', det)
    cell = ' '.join(hits) + (f' (fail-closed, exit 2: {len(fc)} checks)' if fc else '')
    print(f"| {m['seed']} | {files} | {m['needs_to_manifest']} | {cell or 'none'} | {notes.get(m['seed'], '')} |")
