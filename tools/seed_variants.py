#!/usr/bin/env python3
"""tools/seed_variants.py : for every seeded change under /verif/seeded, which properties' OWN rules (no supporting clauses) report it when the patch is
applied in memory to /repo.  Writes fsa/selftest/seed_table.json = {seed: {property: first new rule id}}; fsa/selftest/variants.py registers one firing
variant per entry, so the thorough tier re-checks on every run that each seeded change is still reported by the rules that caught it."""
import json, multiprocessing as mp, os, pathlib, sys, tempfile
ROOT = pathlib.Path(__file__).resolve().parent.parent
sys.path.insert(0, str(ROOT))
os.environ.setdefault('FSA_EVIDENCE_DIR', tempfile.mkdtemp(prefix='fsa-sv-'))
from fsa.model import Project, AnalysisError      # noqa: E402
from fsa import cli                                 # noqa: E402
from fsa.selftest import mutate as M               # noqa: E402
REPO = '/repo'
KNOWN = {(k['property'], k['rule'], k['construct']) for k in json.loads((ROOT / 'known_findings.json').read_text()).get('findings', [])}


def job(args):
    sid, prop = args
    base = Project(REPO, normalise=False)
    try:
        ov = M.apply_patch(base, (ROOT / 'seeded' / sid / 'patch.diff').read_text())
        res = cli.load_rule(prop).run(Project(REPO, ov), 'quick')
        new = sorted(f.rule for f in res.findings if not f.advisory and f.key not in KNOWN)
        return sid, prop, new[0] if new else None
    except AnalysisError:
        return sid, prop, None
    except Exception as e:      # noqa: BLE001
        return sid, prop, f'ERROR {e!r}'


if __name__ == '__main__':
    seeds = sorted(d.name for d in (ROOT / 'seeded').iterdir() if (d / 'patch.diff').exists())
    jobs = [(s, p) for s in seeds for p in cli.PROPS]
    with mp.get_context('fork').Pool(16) as pool:
        out = pool.map(job, jobs, chunksize=4)
    table = {}
    for sid, prop, rule in out:
        if rule and rule.startswith('ERROR'):
            print(sid, prop, rule)
        elif rule:
            table.setdefault(sid, {})[prop] = rule
    (ROOT / 'fsa' / 'selftest' / 'seed_table.json').write_text(json.dumps(table, indent=1, sort_keys=True) + '\n')
    none = [s for s in seeds if s not in table]
    print(f'{len(seeds)} seeds, {sum(len(v) for v in table.values())} (seed, property) pairs; reported by no own rule: {none}')
