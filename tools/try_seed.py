#!/usr/bin/env python3
"""Run every registered check (quick tier) against a scratch tree and summarise which ones report a violation.

usage: tools/try_seed.py <repo-or-worktree-dir> [Cnn ...]
Evidence of these runs goes to a throw-away directory (FSA_EVIDENCE_DIR), never to /verif/evidence.
"""
import json, os, pathlib, subprocess, sys, tempfile
ROOT = pathlib.Path(__file__).resolve().parent.parent
repo = sys.argv[1]
man = json.loads((ROOT / 'MANIFEST.json').read_text())
props = sys.argv[2:] or [c['property_id'] for c in man['checks']]
tmp = tempfile.mkdtemp(prefix='fsa-ev-')
env = dict(os.environ, FSA_EVIDENCE_DIR=tmp, FSA_REPO=repo)
fired = {}
for pid in props:
    out = subprocess.run([str(ROOT / 'check'), pid, '--repo', repo], capture_output=True, text=True, env=env)
    lines = [l for l in out.stdout.splitlines() if not l.startswith(('KNOWN-FINDING', 'ADVISORY'))]
    viol = [l for l in lines if l.startswith('VIOLATION')]
    msgs = [l for l in lines if ': C' in l and not l.startswith(('VIOLATION', pid + ':'))]
    status = out.returncode
    if status != 0:
        fired[pid] = (status, msgs or [l for l in lines if 'ANALYSIS-ERROR' in l])
    print(f'{pid}: exit {status}' + (f'  ({len(viol)} violation(s))' if viol else ''))
    for m in (msgs if status == 1 else [l for l in lines if 'ANALYSIS-ERROR' in l])[:4]:
        print('     ' + m[:260])
import shutil; shutil.rmtree(tmp, ignore_errors=True)
print('FIRED:', ' '.join(f'{k}(exit {v[0]})' for k, v in fired.items()) or 'none')
