#!/bin/bash
# tools/verify_seed.sh <worktree> <seed-id> : confirm a seeded change (suite still 70 passed, demo fails with / passes without), then
# store patch.diff + demo.py under /verif/seeded/<seed-id>/ (meta.json is written by the caller).
set -u
WT=$1; ID=$2
OUT=/verif/seeded/$ID
mkdir -p $OUT
cd $WT || exit 2
git diff -- src > $OUT/patch.diff
[ -s $OUT/patch.diff ] || { echo "no source change in $WT"; exit 2; }
cp demo.py $OUT/demo.py || exit 2
echo "--- suite with the change"
PYTHONPATH=$WT/src /venv/bin/python -m pytest -q -p no:cacheprovider --timeout=900 --continue-on-collection-errors 2>&1 | tail -1 | tee $OUT/.suite
echo "--- demo with the change"
PYTHONPATH=$WT/src timeout 300 /venv/bin/python demo.py > $OUT/.demo_with 2>&1; W=$?
tail -2 $OUT/.demo_with | cut -c1-300; echo "exit $W"
# (no `git stash`: the stash is shared by all worktrees of a repository)
git checkout -q -- src
echo "--- demo without the change"
PYTHONPATH=$WT/src timeout 300 /venv/bin/python demo.py > $OUT/.demo_without 2>&1; WO=$?
tail -2 $OUT/.demo_without | cut -c1-300; echo "exit $WO"
git apply --whitespace=nowarn $OUT/patch.diff
grep -q "70 passed" $OUT/.suite && [ $W -ne 0 ] && [ $WO -eq 0 ] && echo "CONFIRMED $ID" || echo "NOT CONFIRMED $ID"
