# D10: non-blocking FIRST_AVAILABLE pushes of Machine / Splitter / Combiner record nothing in stats["out_edge_selection"].
import io, contextlib, simpy
from factorysimpy.nodes.source import Source
from factorysimpy.nodes.machine import Machine
from factorysimpy.nodes.sink import Sink
from factorysimpy.edges.buffer import Buffer
def run():
    env = simpy.Environment()
    s = Source(env, 'S', inter_arrival_time=1, blocking=True)
    m = Machine(env, 'M', processing_delay=0.5, blocking=False, out_edge_selection='FIRST_AVAILABLE')
    k = Sink(env, 'K')
    b1 = Buffer(env, 'B1', capacity=2); b2 = Buffer(env, 'B2', capacity=2); b3 = Buffer(env, 'B3', capacity=2)
    b1.connect(s, m); b2.connect(m, k); b3.connect(m, k)
    env.run(until=20)
    return {'processed': m.stats['num_item_processed'], 'out_edge_selection_history': m.stats['out_edge_selection']}
with contextlib.redirect_stdout(io.StringIO()):
    r = run()
print(r)
