# D11: Splitter / Combiner workers accept only Buffer out-edges (Fleet / ConveyorBelt -> ValueError "Unsupported edge type").
# D12: continuous ConveyorBelt.put succeeds put_events_available unguarded: Machine(work_capacity=3) finishing 3 items in one instant
#      -> RuntimeError(already triggered).
# D17: Combiner whose recipe has no ingredient edge dereferences self.item_in_process (None) in behaviour.
import io, contextlib, simpy
from factorysimpy.nodes.source import Source
from factorysimpy.nodes.machine import Machine
from factorysimpy.nodes.splitter import Splitter
from factorysimpy.nodes.combiner import Combiner
from factorysimpy.nodes.sink import Sink
from factorysimpy.edges.buffer import Buffer
from factorysimpy.edges.fleet import Fleet
from factorysimpy.edges.continuous_conveyor import ConveyorBelt as CC
def quiet(f):
    with contextlib.redirect_stdout(io.StringIO()):
        try: return f()
        except BaseException as e: return 'EXC ' + type(e).__name__ + ': ' + str(e)[:100]
def d11(cls):
    def f():
        env = simpy.Environment()
        s = Source(env, 'S', inter_arrival_time=1, blocking=True, flow_item_type='pallet')
        n = cls(env, 'N', processing_delay=1); m = Machine(env, 'M', processing_delay=1); k = Sink(env, 'K')
        b1 = Buffer(env, 'B1', capacity=2); fl = Fleet(env, 'F', capacity=2, delay=1, transit_delay=1); b3 = Buffer(env, 'B3', capacity=2)
        b1.connect(s, n); fl.connect(n, m); b3.connect(m, k)
        env.run(until=30); return k.stats['num_item_received']
    return f
def d12():
    env = simpy.Environment()
    s = Source(env, 'S', inter_arrival_time=0, blocking=True)
    m = Machine(env, 'M', processing_delay=5, work_capacity=3); m2 = Machine(env, 'M2', processing_delay=0.1); k = Sink(env, 'K')
    b1 = Buffer(env, 'B1', capacity=5); c = CC(env, 'C', conveyor_length=8, speed=1, item_length=1, accumulating=1); b3 = Buffer(env, 'B3', capacity=5)
    b1.connect(s, m); c.connect(m, m2); b3.connect(m2, k)
    env.run(until=40); return k.stats['num_item_received']
def d17():
    env = simpy.Environment()
    s = Source(env, 'S', inter_arrival_time=1, blocking=True, flow_item_type='pallet')
    cb = Combiner(env, 'CB', processing_delay=1, target_quantity_of_each_item=[1]); k = Sink(env, 'K')
    b1 = Buffer(env, 'B1', capacity=2); b2 = Buffer(env, 'B2', capacity=2)
    b1.connect(s, cb); b2.connect(cb, k)
    env.run(until=20); return k.stats['num_item_received']
print('D11 Splitter -> Fleet:', quiet(d11(Splitter)))
print('D12 Machine(work_capacity=3) -> continuous conveyor:', quiet(d12))
print('D17 Combiner with only the pallet edge:', quiet(d17))
