# Splitter/Combiner._push_item, ConveyorBelt branch: `pe = yield put_token; out_edge.put(pe, item)` uses the value of the
# yield (None) instead of the token -> the store rejects the put, the granted space reservation is left behind for ever.
import io, contextlib, simpy
from factorysimpy.nodes.splitter import Splitter
from factorysimpy.nodes.combiner import Combiner
from factorysimpy.nodes.source import Source
from factorysimpy.nodes.sink import Sink
from factorysimpy.nodes.machine import Machine
from factorysimpy.edges.buffer import Buffer
from factorysimpy.edges.slotted_conveyor import ConveyorBelt
from factorysimpy.helper.item import Item
def run(cls):
    env = simpy.Environment()
    s = Source(env, 'S', inter_arrival_time=1000, blocking=True, flow_item_type='pallet')
    n = cls(env, 'N', processing_delay=1)
    k = Sink(env, 'K')
    b1 = Buffer(env, 'B1', capacity=2)
    c = ConveyorBelt(env, 'C', capacity=3, delay=1, accumulating=1)
    m = Machine(env, 'M', processing_delay=1); b2 = Buffer(env, 'B2', capacity=2)
    b1.connect(s, n); c.connect(n, m); b2.connect(m, k)
    out = {}
    def drive():
        it = Item('x'); it.length = 1
        try:
            yield env.process(n._push_item(it, c))
            out['result'] = 'pushed'
        except Exception as e:
            out['result'] = type(e).__name__ + ': ' + str(e)[:70]
        out['granted_space_reservations_left'] = len(c.belt.reservations_put)
        out['items_on_belt'] = len(c.belt.items)
    env.process(drive())
    env.run(until=50)
    return out
buf = io.StringIO()
with contextlib.redirect_stdout(buf):
    r = [run(Splitter), run(Combiner)]
print(r)
