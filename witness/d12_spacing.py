# D12 (C12 side): on an EMPTY belt the put-grant has no spacing gate: several space reservations issued in one instant are all
# granted, the items enter at the same instant (spacing 0 instead of one slot / item length). Continuous belt additionally raises (C20).
import io, contextlib, simpy
from factorysimpy.nodes.source import Source
from factorysimpy.nodes.machine import Machine
from factorysimpy.nodes.sink import Sink
from factorysimpy.edges.buffer import Buffer
from factorysimpy.edges.slotted_conveyor import ConveyorBelt as SC
def run():
    env = simpy.Environment()
    s = Source(env, 'S', inter_arrival_time=0, blocking=True)
    m = Machine(env, 'M', processing_delay=5, work_capacity=3)
    m2 = Machine(env, 'M2', processing_delay=0.1); k = Sink(env, 'K')
    b1 = Buffer(env, 'B1', capacity=5); c = SC(env, 'C', capacity=6, delay=1, accumulating=1); b3 = Buffer(env, 'B3', capacity=5)
    b1.connect(s, m); c.connect(m, m2); b3.connect(m2, k)
    entries = []
    orig = c.put
    def spy(ev, item):
        r = orig(ev, item); entries.append(item.conveyor_entry_time); return r
    c.put = spy
    env.run(until=8)
    return entries
with contextlib.redirect_stdout(io.StringIO()):
    e = run()
print('conveyor entry times of the first items:', e[:6])
gaps = [b - a for a, b in zip(e, e[1:])]
print('gaps:', gaps[:5], '(slot delay is 1)')
