import io, contextlib, simpy, traceback
from factorysimpy.base.slotted_belt_store import BeltStore as SBS
from factorysimpy.nodes.machine import Machine
from factorysimpy.nodes.source import Source
from factorysimpy.nodes.sink import Sink
from factorysimpy.nodes.combiner import Combiner
from factorysimpy.edges.buffer import Buffer
from factorysimpy.edges.continuous_conveyor import ConveyorBelt as CC
class It:
    def __init__(s, n): s.id = n; s.length = 1
    def __repr__(s): return s.id
def quiet(f):
    buf = io.StringIO()
    with contextlib.redirect_stdout(buf):
        try: return f()
        except BaseException as e:
            return 'EXC ' + type(e).__name__ + ': ' + str(e)[:120]
# D13: slotted BeltStore in no-accumulation mode, one ready item, one waiting get
def d13():
    env = simpy.Environment(); out = {}
    s = SBS(env, capacity=3, delay=1)
    def prod():
        e = s.reserve_put(); yield e
        it = It('A'); it.conveyor_entry_time = env.now
        s.put(e, (it, 3))
    def cons():
        yield env.timeout(5)
        s.noaccumulation_mode_on = True      # what the slotted ConveyorBelt does when it stalls
        e = s.reserve_get(); yield e
        out['got'] = s.get(e)
    env.process(prod()); env.process(cons()); env.run(until=20)
    return out
print('D13:', quiet(d13))
# get_events_available: Combiner fed by a continuous conveyor, recipe needs 2 items from it
def comb():
    env = simpy.Environment()
    s1 = Source(env, 'S1', inter_arrival_time=20, blocking=True, flow_item_type='pallet')
    s2 = Source(env, 'S2', inter_arrival_time=1, blocking=True)
    cb = Combiner(env, 'CB', processing_delay=1, target_quantity_of_each_item=[1, 2])
    m = Machine(env, 'M', processing_delay=1)
    k = Sink(env, 'K')
    b1 = Buffer(env, 'B1', capacity=2)
    c = CC(env, 'C', conveyor_length=4, speed=1, item_length=1, accumulating=1)
    b3 = Buffer(env, 'B3', capacity=2); b4 = Buffer(env, 'B4', capacity=2)
    b1.connect(s1, cb); c.connect(s2, cb); b3.connect(cb, m); b4.connect(m, k)
    env.run(until=60)
    return k.stats
print('Combiner<-conveyor:', quiet(comb))
