# D19: the slotted BeltStore spawns _delayed_interrupt processes (pattern-based stall of an accumulating belt, and
# handle_new_item_during_interruption) without tracking them, and nothing cancels them when the belt is released:
# a stale delayed interrupt fires after the release and freezes an item on a moving belt (it waits for a resume that never comes).
import io, contextlib, simpy
from factorysimpy.base.slotted_belt_store import BeltStore
class It:
    def __init__(s, n): s.id = n; s.length = 1
    def __repr__(s): return s.id
def run():
    env = simpy.Environment(); out = {}
    s = BeltStore(env, capacity=5, delay=1)
    def producer():
        for n, t in (('A', 0), ('B', 2)):
            yield env.timeout(t - env.now)
            e = s.reserve_put(); yield e
            it = It(n); it.conveyor_entry_time = env.now
            s.put(e, (it, 5))
    def controller():
        yield env.timeout(2.5)
        s.selective_interrupt('stall')          # accumulating stall: gap-based plan with delayed interrupts
        yield env.timeout(0.25)
        s.resume_all_move_processes()           # belt released at t=2.75: every item must resume and arrive
    env.process(producer()); env.process(controller())
    env.run(until=30)
    out['ready'] = [i.id for i in s.ready_items]; out['still_on_belt'] = [i[0].id for i in s.items]
    return out
with contextlib.redirect_stdout(io.StringIO()):
    r = run()
print(r)
