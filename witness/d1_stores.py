import io, contextlib, simpy, sys
from factorysimpy.base.buffer_store import BufferStore
from factorysimpy.base.fleet_store import FleetStore
from factorysimpy.base.reservable_priority_req_filter_store import ReservablePriorityReqFilterStore

class It:
    def __init__(s, n): s.id = n
    def __repr__(s): return s.id

def run(gen_factory):
    env = simpy.Environment()
    out = {}
    buf = io.StringIO()
    with contextlib.redirect_stdout(buf):
        p = env.process(gen_factory(env, out))
        try:
            env.run(until=50)
        except Exception as e:
            out['exc'] = repr(e)
    return out

# 1. BufferStore FIFO cancel reorders
def t1(env, out):
    s = BufferStore(env, capacity=5, mode='FIFO')
    for n in 'ABC':
        e = s.reserve_put(); yield e; s.put(e, (It(n), 0))
    yield env.timeout(1)
    e1 = s.reserve_get(); yield e1
    s.reserve_get_cancel(e1)
    out['ready_after_cancel'] = list(s.ready_items)
    e2 = s.reserve_get(); yield e2
    out['got'] = s.get(e2)
print('BufferStore FIFO cancel:', run(t1))

# 2. BufferStore FIFO: cancel first of two -> duplicate binding
def t2(env, out):
    s = BufferStore(env, capacity=5, mode='FIFO')
    for n in 'ABC':
        e = s.reserve_put(); yield e; s.put(e, (It(n), 0))
    yield env.timeout(1)
    e1 = s.reserve_get(); e2 = s.reserve_get(); yield e1
    s.reserve_get_cancel(e1)
    e3 = s.reserve_get(); yield e3
    out['reserved_items'] = list(s.reserved_items)
    a = s.get(e2); out['a']=a
    b = s.get(e3); out['b']=b
print('BufferStore FIFO cancel dup:', run(t2))

# 3. LIFO new arrival while reservation outstanding
def t3(env, out):
    s = BufferStore(env, capacity=5, mode='LIFO')
    for n in 'AB':
        e = s.reserve_put(); yield e; s.put(e, (It(n), 0))
    yield env.timeout(1)
    e1 = s.reserve_get(); yield e1
    e = s.reserve_put(); yield e; s.put(e, (It('C'), 0))
    yield env.timeout(1)
    e2 = s.reserve_get(); yield e2
    out['reserved_items'] = list(s.reserved_items)
    out['a'] = s.get(e1); out['b'] = s.get(e2)
print('BufferStore LIFO:', run(t3))

# 4. Filter store returns non-matching item
def t4(env, out):
    s = ReservablePriorityReqFilterStore(env, capacity=5)
    for n in 'AB':
        e = s.reserve_put(); yield e; s.put(e, It(n))
    e1 = s.reserve_get(filter=lambda it: it.id == 'B'); yield e1
    out['got'] = s.get(e1)
print('Filter store:', run(t4))

# 5. FleetStore: batch
def t5(env, out):
    s = FleetStore(env, capacity=4, delay=100, transit_delay=1)
    for n in 'ABCD':
        e = s.reserve_put(); yield e; s.put(e, It(n))
    yield env.timeout(2.5)
    out['ready'] = list(s.ready_items); out['items'] = list(s.items)
print('Fleet batch:', run(t5))
