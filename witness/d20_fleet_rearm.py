# D20: fleet_activation_process re-arms activate_fleet only inside `if self.items:`.  If it wakes with the event triggered while
# self.items is empty (a mover that was already on its last hop took the item whose put fired the event), the event is never replaced:
# any_of([timeout, activate_fleet]) returns at once for ever -> zero-time livelock, run(until=T) never returns.
import io, contextlib, simpy, sys
from factorysimpy.base.fleet_store import FleetStore
class It:
    def __init__(s, n): s.id = n
def run():
    env = simpy.Environment()
    s = FleetStore(env, capacity=2, delay=2, transit_delay=1.5)
    def producer():
        yield env.timeout(0.5)
        e = s.reserve_put(); yield e; s.put(e, It('A'))           # A waits; trips start at t=2 (ends 5) and t=4 (ends 7)
        tok = s.reserve_put(); yield tok                          # second slot reserved early ...
        yield env.timeout(6.5 - (env.now - 0.5))                  # ... and used exactly at t=7, before the second mover's last hop
        s.put(tok, It('B'))                                       # fleet full (A ready + B) -> activate_fleet.succeed()
    env.process(producer())
    steps = 0
    while env.peek() <= 20:
        t = env.peek()
        env.step(); steps += 1
        if steps > 20000:
            return f'LIVELOCK: more than 20000 events without passing t={t}; activate_fleet.triggered={s.activate_fleet.triggered}, items waiting={len(s.items)}'
    return f'terminated at t=20 after {steps} events'
with contextlib.redirect_stdout(io.StringIO()):
    r = run()
print(r)
