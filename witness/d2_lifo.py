# D2: LIFO binding `ready_items[-1-j]` assumes the reserved items are the top |RE| entries, but (a) a new arrival is appended on
# top of them and (b) a cancelled reservation's item is re-inserted on top of them -> two tokens bound to the same item.
import io, contextlib, simpy
from factorysimpy.base.buffer_store import BufferStore
from factorysimpy.base.slotted_belt_store import BeltStore as SlottedStore
class It:
    def __init__(s, n): s.id = n; s.length = 1; s.conveyor_entry_time = 0
    def __repr__(s): return s.id
def run(f):
    env = simpy.Environment(); out = {}
    with contextlib.redirect_stdout(io.StringIO()):
        env.process(f(env, out))
        try: env.run(until=50)
        except Exception as e: out['exc'] = repr(e)[:90]
    return out
def arrival(mk):
    def f(env, out):
        s = mk(env)
        for n in 'AB':
            e = s.reserve_put(); yield e; s.put(e, (It(n), 0))
        yield env.timeout(5)
        e1 = s.reserve_get(); yield e1                    # bound to B (top)
        e = s.reserve_put(); yield e; s.put(e, (It('C'), 0))
        yield env.timeout(5)                              # C arrives on top of the reserved B
        e2 = s.reserve_get(); yield e2                    # bound to ready[-2] = B again
        out['bound'] = list(s.reserved_items)
        out['first'] = s.get(e1); out['second'] = s.get(e2)
    return f
def cancel(mk):
    def f(env, out):
        s = mk(env)
        for n in 'XYZ':
            e = s.reserve_put(); yield e; s.put(e, (It(n), 0))
        yield env.timeout(5)
        e1 = s.reserve_get(); e2 = s.reserve_get(); yield e1   # e1->Z, e2->Y
        s.reserve_get_cancel(e1)                                # Z re-inserted on top of the reserved Y
        e3 = s.reserve_get(); yield e3                          # bound to ready[-2] = Y again
        out['bound'] = list(s.reserved_items)
        out['a'] = s.get(e2); out['b'] = s.get(e3)
    return f
buf = lambda env: BufferStore(env, capacity=5, mode='LIFO')
slot = lambda env: SlottedStore(env, capacity=5, mode='LIFO', delay=1)
print('BufferStore LIFO arrival :', run(arrival(buf)))
print('BufferStore LIFO cancel  :', run(cancel(buf)))
print('slotted store LIFO arrival:', run(arrival(slot)))
print('slotted store LIFO cancel :', run(cancel(slot)))
