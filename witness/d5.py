import io, contextlib, simpy
from factorysimpy.nodes.source import Source
from factorysimpy.nodes.machine import Machine
from factorysimpy.nodes.sink import Sink
from factorysimpy.edges.buffer import Buffer
def run():
    env = simpy.Environment()
    s = Source(env, 'S', inter_arrival_time=1, blocking=False, out_edge_selection="FIRST_AVAILABLE")
    m = Machine(env, 'M', processing_delay=10)
    k = Sink(env, 'K')
    b1 = Buffer(env, 'B1', capacity=2); b2 = Buffer(env, 'B2', capacity=2)
    b1.connect(s, m); b2.connect(m, k)
    env.run(until=100)
    s.update_final_state_time(100)
    return s.stats
buf = io.StringIO()
with contextlib.redirect_stdout(buf):
    r = run()
print(r)
