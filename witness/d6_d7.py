# D6: both ConveyorBelt.can_put/can_get read self.inp_buf / self.out_buf, which are never assigned -> AttributeError as soon as a
#     non-blocking node probes a conveyor out-edge.   D7: Sink reserves on edge.inbuiltstore, conveyors keep their store in .belt.
import io, contextlib, simpy
from factorysimpy.nodes.source import Source
from factorysimpy.nodes.machine import Machine
from factorysimpy.nodes.sink import Sink
from factorysimpy.edges.buffer import Buffer
from factorysimpy.edges.continuous_conveyor import ConveyorBelt as CC
from factorysimpy.edges.slotted_conveyor import ConveyorBelt as SC
def quiet(f):
    with contextlib.redirect_stdout(io.StringIO()):
        try: return f()
        except BaseException as e: return 'EXC ' + type(e).__name__ + ': ' + str(e)[:90]
def d6(mk):
    def f():
        env = simpy.Environment()
        s = Source(env, 'S', inter_arrival_time=1, blocking=True)
        m = Machine(env, 'M', processing_delay=1, blocking=False)
        m2 = Machine(env, 'M2', processing_delay=1); k = Sink(env, 'K')
        b1 = Buffer(env, 'B1', capacity=2); c = mk(env); b3 = Buffer(env, 'B3', capacity=2)
        b1.connect(s, m); c.connect(m, m2); b3.connect(m2, k)
        env.run(until=20); return k.stats['num_item_received']
    return f
def d7():
    env = simpy.Environment()
    s = Source(env, 'S', inter_arrival_time=1, blocking=True); k = Sink(env, 'K')
    c = SC(env, 'C', capacity=3, delay=1, accumulating=1); c.connect(s, k)
    env.run(until=20); return k.stats['num_item_received']
print('D6 continuous:', quiet(d6(lambda env: CC(env, 'C', conveyor_length=4, speed=1, item_length=1, accumulating=1))))
print('D6 slotted   :', quiet(d6(lambda env: SC(env, 'C', capacity=3, delay=1, accumulating=1))))
print('D7 conveyor->sink:', quiet(d7))
