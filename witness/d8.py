import io, contextlib, simpy
from factorysimpy.nodes.source import Source
from factorysimpy.nodes.splitter import Splitter
from factorysimpy.nodes.combiner import Combiner
from factorysimpy.nodes.sink import Sink
from factorysimpy.edges.buffer import Buffer
def run(cls):
    env = simpy.Environment()
    s = Source(env, 'S', inter_arrival_time=1, blocking=True, flow_item_type='pallet')
    n = cls(env, 'N', node_setup_time=3, processing_delay=1)
    k = Sink(env, 'K')
    b1 = Buffer(env, 'B1', capacity=2); b2 = Buffer(env, 'B2', capacity=2)
    b1.connect(s, n)
    if cls is Combiner:
        s2 = Source(env, 'S2', inter_arrival_time=1, blocking=True); b3 = Buffer(env, 'B3', capacity=2); b3.connect(s2, n)
        n.target_quantity_of_each_item=[1,1]
    b2.connect(n, k)
    env.run(until=20)
    n.update_final_state_time(20)
    return n.stats['total_time_spent_in_states'], sum(n.stats['total_time_spent_in_states'].values())
buf = io.StringIO()
with contextlib.redirect_stdout(buf):
    r = [run(Splitter), run(Combiner)]
print(r)
