# D9: the slotted ConveyorBelt waits on item_arrival_event in IDLE, but item_arrival_event.succeed() exists only in comments:
#     the state machine never leaves IDLE_STATE, the belt never stalls, ready items pile up on a non-accumulating belt.
import io, contextlib, simpy
from factorysimpy.nodes.source import Source
from factorysimpy.nodes.machine import Machine
from factorysimpy.nodes.sink import Sink
from factorysimpy.edges.buffer import Buffer
from factorysimpy.edges.slotted_conveyor import ConveyorBelt
def run():
    env = simpy.Environment()
    s = Source(env, 'S', inter_arrival_time=1, blocking=True)
    m = Machine(env, 'M', processing_delay=50)          # slow consumer: the head item waits at the exit
    k = Sink(env, 'K')
    c = ConveyorBelt(env, 'C', capacity=5, delay=1, accumulating=0)
    b = Buffer(env, 'B', capacity=1)
    c.connect(s, m); b.connect(m, k)
    env.run(until=40)
    return {'state': c.state, 'ready_items_waiting_at_exit': len(c.belt.ready_items), 'noaccumulation_mode_on': c.belt.noaccumulation_mode_on}
with contextlib.redirect_stdout(io.StringIO()):
    r = run()
print(r)
